//! Reference eBPF machine, written from the statements of C01/C02/C07/C08 (DESIGN.md 3.1).
//! Deliberately boring; shares no code with rbpf. Values carry definedness so that the
//! exclusion clauses of the properties ("never-written register or stack byte, r1-r5 after a
//! helper call, raw addresses") are applied mechanically.

use crate::isa::{self, AluOp, Cond, Kind, I};
use std::collections::HashMap;

#[derive(Clone, Copy, PartialEq, Eq, Debug)]
pub enum Region {
    Packet,
    Mbuff,
    Stack,
}

#[derive(Clone, Copy, PartialEq, Eq, Debug)]
pub enum Val {
    Int(u64),
    /// address = base(region) + off
    Ptr(Region, i64),
    Undef,
}

#[derive(Clone, Copy, PartialEq, Eq, Debug)]
pub enum Cell {
    Def(u8),
    Undef,
    /// k-th byte of a stored pointer
    PtrPart(Region, i64, u8),
}

#[derive(Clone, Copy, PartialEq, Eq, Debug)]
pub enum ErrKind {
    OutOfBounds,
    Unaligned,
    UnknownHelper,
    CallDepth,
    BadCallKind,
}

#[derive(Clone, PartialEq, Eq, Debug)]
pub enum End {
    Ret(Val),
    Err(ErrKind),
    OutOfClaim(&'static str),
    NoTermination,
    /// the program is not well formed (fell off the end, executed a non-instruction...)
    Malformed(&'static str),
}

pub type ModelHelper = fn(&[Val; 5]) -> Val;

pub fn h_gather_bytes(a: &[Val; 5]) -> Val {
    match (a[0], a[1], a[2], a[3], a[4]) {
        (Val::Int(a1), Val::Int(a2), Val::Int(a3), Val::Int(a4), Val::Int(a5)) => Val::Int((a1 << 32) | (a2 << 24) | (a3 << 16) | (a4 << 8) | a5),
        _ => Val::Undef,
    }
}

#[derive(Clone, Copy, PartialEq, Eq, Debug)]
pub enum VmKind {
    Raw,
    Mbuff,
    Fixed(usize, usize),
    NoData,
}

pub struct Frame {
    ret: usize,
    saved: [Val; 4],
    usage: u64,
}

pub struct Machine<'p> {
    pub prog: &'p [I],
    pub reg: [Val; 11],
    pub packet: Vec<Cell>,
    pub mbuff: Vec<Cell>,
    pub stack: Vec<Cell>,
    frames: Vec<Frame>,
    entries: Vec<usize>,
    pub helpers: HashMap<u32, ModelHelper>,
    /// frame size of the function entered at this pc (None = default 256)
    pub usage_of: Option<Box<dyn Fn(usize) -> u64 + 'p>>,
    cur_entry: usize,
    pub steps: u64,
    pub max_steps: u64,
    pub taken: u64,
    pub max_depth: usize,
    /// Deviation model (known finding): unsigned 64-bit comparisons against an immediate
    /// zero-extend it instead of sign-extending it.
    pub quirk_zext_jmp_imm: bool,
}

fn cells_of(bytes: &[u8]) -> Vec<Cell> {
    bytes.iter().map(|b| Cell::Def(*b)).collect()
}

impl<'p> Machine<'p> {
    pub fn new(prog: &'p [I], kind: VmKind, packet: &[u8], mbuff: &[u8]) -> Machine<'p> {
        let mut reg = [Val::Undef; 11];
        reg[10] = Val::Ptr(Region::Stack, 512);
        let mut mb = cells_of(mbuff);
        match kind {
            VmKind::Raw => {
                reg[1] = if packet.is_empty() { Val::Int(0) } else { Val::Ptr(Region::Packet, 0) };
                mb.clear();
            }
            VmKind::NoData => {
                reg[1] = Val::Int(0);
                mb.clear();
            }
            VmKind::Mbuff => {
                reg[1] = if !mbuff.is_empty() { Val::Ptr(Region::Mbuff, 0) } else { Val::Undef };
            }
            VmKind::Fixed(a, b) => {
                let len = a.max(b) + 8;
                // the bytes of the internal buffer other than the two pointer slots: no property says
                // what a freshly (re)loaded VM holds there (zero today) - undefined for the model
                if mb.len() != len {
                    mb = vec![Cell::Undef; len];
                }
                for k in 0..8 {
                    mb[a + k] = Cell::PtrPart(Region::Packet, 0, k as u8);
                }
                for k in 0..8 {
                    mb[b + k] = Cell::PtrPart(Region::Packet, packet.len() as i64, k as u8);
                }
                reg[1] = Val::Ptr(Region::Mbuff, 0);
            }
        }
        Machine {
            prog,
            reg,
            packet: cells_of(packet),
            mbuff: mb,
            stack: vec![Cell::Undef; 512],
            frames: vec![],
            entries: vec![],
            helpers: HashMap::new(),
            usage_of: None,
            cur_entry: 0,
            steps: 0,
            max_steps: 200_000,
            taken: 0,
            max_depth: 0,
            quirk_zext_jmp_imm: false,
        }
    }

    fn region_mut(&mut self, r: Region) -> &mut Vec<Cell> {
        match r {
            Region::Packet => &mut self.packet,
            Region::Mbuff => &mut self.mbuff,
            Region::Stack => &mut self.stack,
        }
    }
    fn region(&self, r: Region) -> &Vec<Cell> {
        match r {
            Region::Packet => &self.packet,
            Region::Mbuff => &self.mbuff,
            Region::Stack => &self.stack,
        }
    }

    /// Resolve an address value + displacement to (region, index) or an end condition.
    fn resolve(&self, base: Val, disp: i64, w: usize) -> Result<(Region, usize), End> {
        match base {
            Val::Ptr(r, off) => {
                let eff = off.wrapping_add(disp);
                let len = self.region(r).len() as i64;
                if eff >= 0 && eff.checked_add(w as i64).map_or(false, |e| e <= len) {
                    Ok((r, eff as usize))
                } else {
                    // outside its own region; it could only be valid if it landed inside another
                    // region, which depends on raw addresses - but the property says such an
                    // access is refused unless wholly inside *some* region. Distances between
                    // regions are far larger than any displacement the generators use.
                    Err(End::Err(ErrKind::OutOfBounds))
                }
            }
            Val::Int(a) => {
                let eff = a.wrapping_add(disp as u64);
                if eff < 0x10000 || eff >= 0xffff_8000_0000_0000 || eff.checked_add(w as u64).is_none() {
                    Err(End::Err(ErrKind::OutOfBounds))
                } else {
                    Err(End::OutOfClaim("access through a raw integer address"))
                }
            }
            Val::Undef => Err(End::OutOfClaim("access through an undefined address")),
        }
    }

    fn load(&self, r: Region, idx: usize, w: usize) -> Val {
        let c = &self.region(r)[idx..idx + w];
        if c.iter().all(|x| matches!(x, Cell::Def(_))) {
            let mut v = 0u64;
            for (k, x) in c.iter().enumerate() {
                if let Cell::Def(b) = x {
                    v |= (*b as u64) << (8 * k);
                }
            }
            return Val::Int(v);
        }
        if w == 8 {
            if let Cell::PtrPart(pr, po, 0) = c[0] {
                if c.iter().enumerate().all(|(k, x)| *x == Cell::PtrPart(pr, po, k as u8)) {
                    return Val::Ptr(pr, po);
                }
            }
        }
        Val::Undef
    }

    fn store(&mut self, r: Region, idx: usize, w: usize, v: Val) {
        let cells = self.region_mut(r);
        match v {
            Val::Int(x) => {
                for k in 0..w {
                    cells[idx + k] = Cell::Def((x >> (8 * k)) as u8);
                }
            }
            Val::Ptr(pr, po) if w == 8 => {
                for k in 0..8 {
                    cells[idx + k] = Cell::PtrPart(pr, po, k as u8);
                }
            }
            _ => {
                for k in 0..w {
                    cells[idx + k] = Cell::Undef;
                }
            }
        }
    }

    fn alu64(op: AluOp, d: Val, s: Val) -> Val {
        use Val::*;
        match (op, d, s) {
            (AluOp::Mov, _, x) => x,
            (AluOp::Add, Ptr(r, o), Int(b)) | (AluOp::Add, Int(b), Ptr(r, o)) => Ptr(r, o.wrapping_add(b as i64)),
            (AluOp::Sub, Ptr(r, o), Int(b)) => Ptr(r, o.wrapping_sub(b as i64)),
            (AluOp::Sub, Ptr(r1, o1), Ptr(r2, o2)) if r1 == r2 => Int(o1.wrapping_sub(o2) as u64),
            (AluOp::Mod, d, Int(0)) => d,
            (AluOp::Div, _, Int(0)) => Int(0),
            (_, Int(a), Int(b)) => Int(match op {
                AluOp::Add => a.wrapping_add(b),
                AluOp::Sub => a.wrapping_sub(b),
                AluOp::Mul => a.wrapping_mul(b),
                AluOp::Div => a / b,
                AluOp::Or => a | b,
                AluOp::And => a & b,
                AluOp::Lsh => a << (b & 63),
                AluOp::Rsh => a >> (b & 63),
                AluOp::Mod => a % b,
                AluOp::Xor => a ^ b,
                AluOp::Arsh => ((a as i64) >> (b & 63)) as u64,
                AluOp::Mov => b,
            }),
            _ => Undef,
        }
    }

    fn alu32(op: AluOp, d: Val, s: Val) -> Val {
        use Val::*;
        match (op, d, s) {
            (AluOp::Mov, _, Int(b)) => Int(b as u32 as u64),
            (AluOp::Mod, d, Int(b)) if b as u32 == 0 => d, // destination left as it is (all 64 bits)
            (AluOp::Div, _, Int(b)) if b as u32 == 0 => Int(0),
            (_, Int(a), Int(b)) => {
                let (a, b) = (a as u32, b as u32);
                Int(match op {
                    AluOp::Add => a.wrapping_add(b),
                    AluOp::Sub => a.wrapping_sub(b),
                    AluOp::Mul => a.wrapping_mul(b),
                    AluOp::Div => a / b,
                    AluOp::Or => a | b,
                    AluOp::And => a & b,
                    AluOp::Lsh => a << (b & 31),
                    AluOp::Rsh => a >> (b & 31),
                    AluOp::Mod => a % b,
                    AluOp::Xor => a ^ b,
                    AluOp::Arsh => ((a as i32) >> (b & 31)) as u32,
                    AluOp::Mov => b,
                } as u64)
            }
            _ => Undef,
        }
    }

    fn cond(c: Cond, is32: bool, a: u64, b: u64) -> bool {
        if is32 {
            let (ua, ub) = (a as u32, b as u32);
            let (sa, sb) = (ua as i32, ub as i32);
            match c {
                Cond::Eq => ua == ub,
                Cond::Ne => ua != ub,
                Cond::Gt => ua > ub,
                Cond::Ge => ua >= ub,
                Cond::Lt => ua < ub,
                Cond::Le => ua <= ub,
                Cond::Set => ua & ub != 0,
                Cond::Sgt => sa > sb,
                Cond::Sge => sa >= sb,
                Cond::Slt => sa < sb,
                Cond::Sle => sa <= sb,
            }
        } else {
            let (sa, sb) = (a as i64, b as i64);
            match c {
                Cond::Eq => a == b,
                Cond::Ne => a != b,
                Cond::Gt => a > b,
                Cond::Ge => a >= b,
                Cond::Lt => a < b,
                Cond::Le => a <= b,
                Cond::Set => a & b != 0,
                Cond::Sgt => sa > sb,
                Cond::Sge => sa >= sb,
                Cond::Slt => sa < sb,
                Cond::Sle => sa <= sb,
            }
        }
    }

    fn usage(&self, entry: usize) -> u64 {
        match &self.usage_of {
            Some(f) => f(entry),
            None => 256,
        }
    }

    pub fn run(&mut self) -> End {
        let n = self.prog.len();
        let mut pc: usize = 0;
        loop {
            if pc >= n {
                return End::Malformed("ran past the end");
            }
            self.steps += 1;
            if self.steps > self.max_steps {
                return End::NoTermination;
            }
            let i = self.prog[pc];
            let Some(k) = isa::kind(i.opc) else { return End::Malformed("unsupported opcode") };
            let (d, s) = (i.dst as usize, i.src as usize);
            if d > 10 || s > 10 {
                return End::Malformed("register out of range");
            }
            let mut next = pc + 1;
            match k {
                Kind::LdAbs(w) | Kind::LdInd(w) => {
                    if i.imm < 0 {
                        return End::OutOfClaim("ldabs/ldind with a negative immediate");
                    }
                    let mut idx = i.imm as u32 as u64;
                    if matches!(k, Kind::LdInd(_)) {
                        match self.reg[s] {
                            Val::Int(x) => idx = idx.wrapping_add(x),
                            _ => return End::OutOfClaim("ldind through a non-integer"),
                        }
                    }
                    let len = self.packet.len() as u64;
                    let w = w as u64;
                    if idx.checked_add(w).map_or(true, |e| e > len) {
                        return End::Err(ErrKind::OutOfBounds);
                    }
                    self.reg[0] = self.load(Region::Packet, idx as usize, w as usize);
                }
                Kind::LdDw => {
                    if pc + 1 >= n {
                        return End::Malformed("lddw without second half");
                    }
                    let hi = self.prog[pc + 1].imm as u32 as u64;
                    self.reg[d] = Val::Int((i.imm as u32 as u64) | (hi << 32));
                    next = pc + 2;
                }
                Kind::Ldx(w) => {
                    let (r, idx) = match self.resolve(self.reg[s], i.off as i64, w as usize) {
                        Ok(x) => x,
                        Err(e) => return e,
                    };
                    self.reg[d] = self.load(r, idx, w as usize);
                }
                Kind::St(w) | Kind::Stx(w) => {
                    let (r, idx) = match self.resolve(self.reg[d], i.off as i64, w as usize) {
                        Ok(x) => x,
                        Err(e) => return e,
                    };
                    let v = if matches!(k, Kind::St(_)) { Val::Int(i.imm as i64 as u64) } else { self.reg[s] };
                    self.store(r, idx, w as usize, v);
                }
                Kind::Xadd(w) => {
                    let (r, idx) = match self.resolve(self.reg[d], i.off as i64, w as usize) {
                        Ok(x) => x,
                        Err(e) => return e,
                    };
                    if idx % (w as usize) != 0 {
                        // region bases are 8-aligned in the harness
                        return End::Err(ErrKind::Unaligned);
                    }
                    let old = self.load(r, idx, w as usize);
                    let v = match (old, self.reg[s]) {
                        (Val::Int(a), Val::Int(b)) => Val::Int(if w == 4 { (a as u32).wrapping_add(b as u32) as u64 } else { a.wrapping_add(b) }),
                        _ => Val::Undef,
                    };
                    self.store(r, idx, w as usize, v);
                }
                Kind::Alu { op, is64, reg } => {
                    let sv = if reg { self.reg[s] } else { Val::Int(i.imm as i64 as u64) };
                    self.reg[d] = if is64 { Self::alu64(op, self.reg[d], sv) } else { Self::alu32(op, self.reg[d], sv) };
                }
                Kind::Neg { is64 } => {
                    self.reg[d] = match self.reg[d] {
                        Val::Int(a) => Val::Int(if is64 { a.wrapping_neg() } else { (a as u32).wrapping_neg() as u64 }),
                        _ => Val::Undef,
                    };
                }
                Kind::End { to_be } => {
                    self.reg[d] = match self.reg[d] {
                        Val::Int(a) => Val::Int(match (to_be, i.imm) {
                            (false, 16) => a as u16 as u64,
                            (false, 32) => a as u32 as u64,
                            (false, 64) => a,
                            (true, 16) => (a as u16).swap_bytes() as u64,
                            (true, 32) => (a as u32).swap_bytes() as u64,
                            (true, 64) => a.swap_bytes(),
                            _ => return End::Malformed("byte swap width"),
                        }),
                        _ => Val::Undef,
                    };
                }
                Kind::Ja => {
                    next = (pc as i64 + 1 + i.off as i64) as usize;
                    self.taken += 1;
                }
                Kind::Jcc { cond, is32, reg } => {
                    let a = self.reg[d];
                    let zext = self.quirk_zext_jmp_imm && !is32 && matches!(cond, Cond::Eq | Cond::Ne | Cond::Gt | Cond::Ge | Cond::Lt | Cond::Le);
                    let b = if reg {
                        self.reg[s]
                    } else if zext {
                        Val::Int(i.imm as u32 as u64)
                    } else {
                        Val::Int(i.imm as i64 as u64)
                    };
                    match (a, b) {
                        (Val::Int(a), Val::Int(b)) => {
                            if Self::cond(cond, is32, a, b) {
                                next = (pc as i64 + 1 + i.off as i64) as usize;
                                self.taken += 1;
                            }
                        }
                        _ => return End::OutOfClaim("branch on an undefined value or an address"),
                    }
                }
                Kind::Call => match i.src {
                    0 => {
                        let Some(h) = self.helpers.get(&(i.imm as u32)) else { return End::Err(ErrKind::UnknownHelper) };
                        let args = [self.reg[1], self.reg[2], self.reg[3], self.reg[4], self.reg[5]];
                        self.reg[0] = h(&args);
                        for r in 1..=5 {
                            self.reg[r] = Val::Undef;
                        }
                    }
                    1 => {
                        if self.frames.len() >= 8 {
                            return End::Err(ErrKind::CallDepth);
                        }
                        let usage = self.usage(self.cur_entry);
                        self.frames.push(Frame { ret: pc + 1, saved: [self.reg[6], self.reg[7], self.reg[8], self.reg[9]], usage });
                        // remember the caller's entry in the frame through `ret` bookkeeping
                        self.entries.push(self.cur_entry);
                        self.max_depth = self.max_depth.max(self.frames.len());
                        self.reg[10] = match self.reg[10] {
                            Val::Ptr(r, o) => Val::Ptr(r, o - usage as i64),
                            x => x,
                        };
                        let t = pc as i64 + 1 + i.imm as i64;
                        if t < 0 || t as usize >= n {
                            return End::Malformed("local call out of the program");
                        }
                        next = t as usize;
                        self.cur_entry = next;
                    }
                    _ => return End::Err(ErrKind::BadCallKind),
                },
                Kind::Exit => {
                    match self.frames.pop() {
                        None => return End::Ret(self.reg[0]),
                        Some(f) => {
                            self.reg[6] = f.saved[0];
                            self.reg[7] = f.saved[1];
                            self.reg[8] = f.saved[2];
                            self.reg[9] = f.saved[3];
                            self.reg[10] = match self.reg[10] {
                                Val::Ptr(r, o) => Val::Ptr(r, o + f.usage as i64),
                                x => x,
                            };
                            next = f.ret;
                            self.cur_entry = self.entries.pop().unwrap_or(0);
                        }
                    }
                }
            }
            pc = next;
        }
    }
}
