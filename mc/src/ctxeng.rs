//! Engine `ctx` (C09): what each VM kind presents to the program at entry, on every engine,
//! for every offset pair, packet and sequence of executions.

use crate::common::*;
use crate::isa::{self, I};
use crate::vm::{self, AnyVm, Buf, Eng, VmKind};
use serde_json::{json, Value};

const OFFS: [usize; 8] = [0, 8, 16, 0x40, 0x48, 0x50, 0x1000, 0x10000];

#[derive(Clone, Copy, Debug, PartialEq, Eq)]
pub enum Probe {
    R1,
    DataStart,
    DataEnd,
    Len,
    LdAbs0,
    Stack,
    LdAbsLast,
    /// registers written, then instruction k of `ctx_alphabet`, then `ldabsb 6`
    LdAbsAfter(u8),
    /// the same, then `ldindb r5, 4` with r5 = 2
    LdIndAfter(u8),
    /// registers written, then instructions i and j of `ctx_alphabet`, then `ldabsb 6`
    LdAbsAfter2(u8, u8),
    /// `ldabsb 0x10004` (a packet larger than 64 KiB)
    LdAbsBig,
    /// `ldindb r5, 0xfff0` with r5 = 0x14
    LdIndBig,
    /// "a private 512-byte stack": both ends written, a helper that itself runs another program under
    /// the interpreter (which fills *its* stack), both ends read back
    StackAcrossNested,
    /// two consecutive indirect loads whose index register is r0, the register they write:
    /// r0 = 1; r0 = pkt[r0 + 2]; r0 = pkt[r0 + 4]
    LdIndChain,
}

fn probes() -> Vec<Probe> {
    let mut v = vec![Probe::R1, Probe::DataStart, Probe::DataEnd, Probe::Len, Probe::LdAbs0, Probe::Stack, Probe::LdAbsLast, Probe::LdAbsBig, Probe::LdIndBig, Probe::LdIndChain, Probe::StackAcrossNested];
    for k in 0..ctx_alphabet().len() as u8 {
        v.push(Probe::LdAbsAfter(k));
        v.push(Probe::LdIndAfter(k));
    }
    let n = ctx_alphabet().len() as u8;
    for i in 0..n {
        for j in 0..n {
            v.push(Probe::LdAbsAfter2(i, j));
        }
    }
    v
}

const BIG: usize = 0x11000;

pub fn ctx_helper(a: u64, b: u64, _c: u64, _d: u64, _e: u64) -> u64 {
    a.wrapping_add(b)
}

pub fn ctx_nested_helper(a: u64, _b: u64, _c: u64, _d: u64, _e: u64) -> u64 {
    crate::callseng::nested_run(1);
    a
}

/// Instructions executed between the entry and a packet load: whatever they use as scratch, the
/// packet load still addresses the packet.
fn ctx_alphabet() -> Vec<(&'static str, Vec<I>)> {
    let i = |opc: u8, d: u8, s: u8, off: i16, imm: i32| I::new(opc, d, s, off, imm);
    vec![
        ("mul64 r2,r3", vec![i(0x2f, 2, 3, 0, 0)]),
        ("mul64 r0,3", vec![i(0x27, 0, 0, 0, 3)]),
        ("mul32 r4,r3", vec![i(0x2c, 4, 3, 0, 0)]),
        ("div64 r2,r3", vec![i(0x3f, 2, 3, 0, 0)]),
        ("div64 r0,3", vec![i(0x37, 0, 0, 0, 3)]),
        ("div32 r4,r3", vec![i(0x3c, 4, 3, 0, 0)]),
        ("mod64 r2,r3", vec![i(0x9f, 2, 3, 0, 0)]),
        ("mod32 r0,7", vec![i(0x94, 0, 0, 0, 7)]),
        ("lsh64 r2,r4", vec![i(0x6f, 2, 4, 0, 0)]),
        ("rsh32 r2,r4", vec![i(0x7c, 2, 4, 0, 0)]),
        ("arsh64 r3,r4", vec![i(0xcf, 3, 4, 0, 0)]),
        ("neg64 r2", vec![i(0x87, 2, 0, 0, 0)]),
        ("be16 r2", vec![i(0xdc, 2, 0, 0, 16)]),
        ("le64 r3", vec![i(0xd4, 3, 0, 0, 64)]),
        ("lddw r5", isa::lddw(5, 0x1122334455667788).to_vec()),
        ("stxdw [r10-8],r2", vec![i(0x7b, 10, 2, -8, 0)]),
        ("xadddw [r10-8],r3", vec![i(0x7b, 10, 2, -8, 0), i(0xdb, 10, 3, -8, 0)]),
        ("call 1", vec![isa::call_helper(1)]),
        ("ja +0", vec![isa::ja(0)]),
        ("jeq r2,r3,+0", vec![i(0x1d, 2, 3, 0, 0)]),
        ("mov64 r6,r1", vec![isa::mov64r(6, 1)]),
        ("mul64 r3,r3; div64 r2,r3", vec![i(0x2f, 3, 3, 0, 0), i(0x3f, 2, 3, 0, 0)]),
        ("stxdw [r10-512],r2", vec![i(0x7b, 10, 2, -512, 0)]),
        ("stxdw [r10-256],r3", vec![i(0x7b, 10, 3, -256, 0)]),
        ("stdw [r10-504],-1", vec![i(0x7a, 10, 0, -504, -1)]),
        // packet loads before the packet load
        ("ldabsb 1", vec![i(0x30, 0, 0, 0, 1)]),
        ("ldindb r4,0", vec![i(0x50, 0, 4, 0, 0)]),
    ]
}

fn probe_prog(p: Probe, a: usize, b: usize) -> Vec<I> {
    // offsets above i16::MAX are reached by adding to a copy of r1
    let at = |reg: u8, off: usize| -> Vec<I> {
        if off <= 32000 {
            vec![isa::ldxdw(reg, 1, off as i16)]
        } else {
            vec![isa::mov64r(reg, 1), isa::add64i(reg, off as i32), isa::ldxdw(reg, reg, 0)]
        }
    };
    let mut v = vec![];
    match p {
        Probe::R1 => v.push(isa::mov64r(0, 1)),
        Probe::DataStart => v.extend(at(0, a)),
        Probe::DataEnd => v.extend(at(0, b)),
        Probe::Len => {
            v.extend(at(2, b));
            v.extend(at(0, a));
            v.push(isa::sub64r(2, 0));
            v.push(isa::mov64r(0, 2));
        }
        Probe::LdAbs0 => v.push(I::new(0x30, 0, 0, 0, 0)),
        Probe::LdAbsLast => v.push(I::new(0x30, 0, 0, 0, 6)),
        Probe::LdAbsAfter(k) | Probe::LdIndAfter(k) => {
            v.push(isa::mov64i(2, 0x77));
            v.push(isa::mov64i(3, 0x99));
            v.push(isa::mov64i(4, 5));
            v.push(isa::mov64i(0, 9));
            v.push(isa::mov64i(5, 1));
            v.extend(ctx_alphabet()[k as usize].1.iter());
            if matches!(p, Probe::LdAbsAfter(_)) {
                v.push(I::new(0x30, 0, 0, 0, 6));
            } else {
                v.push(isa::mov64i(5, 2));
                v.push(I::new(0x50, 0, 5, 0, 4));
            }
        }
        Probe::LdAbsAfter2(a1, a2) => {
            v.push(isa::mov64i(2, 0x77));
            v.push(isa::mov64i(3, 0x99));
            v.push(isa::mov64i(4, 5));
            v.push(isa::mov64i(0, 9));
            v.push(isa::mov64i(5, 1));
            v.extend(ctx_alphabet()[a1 as usize].1.iter());
            // r1-r5 may have been clobbered by a helper call: rewrite what the next instruction reads
            v.push(isa::mov64i(2, 0x78));
            v.push(isa::mov64i(3, 0x9a));
            v.push(isa::mov64i(4, 6));
            v.extend(ctx_alphabet()[a2 as usize].1.iter());
            v.push(I::new(0x30, 0, 0, 0, 6));
        }
        Probe::LdAbsBig => v.push(I::new(0x30, 0, 0, 0, 0x10004)),
        Probe::LdIndBig => {
            v.push(isa::mov64i(5, 0x14));
            v.push(I::new(0x50, 0, 5, 0, 0xfff0));
        }
        Probe::LdIndChain => {
            v.push(isa::mov64i(0, 1));
            v.push(I::new(0x50, 0, 0, 0, 2));
            v.push(I::new(0x50, 0, 0, 0, 4));
        }
        Probe::StackAcrossNested => {
            v.push(I::new(0x72, 10, 0, -1, 0x5a));
            v.push(I::new(0x72, 10, 0, -512, 0x6b));
            v.push(isa::call_helper(2));
            v.push(isa::ldxb(0, 10, -1));
            v.push(isa::ldxb(2, 10, -512));
            v.push(I::new(0x67, 0, 0, 0, 8));
            v.push(I::new(0x4f, 0, 2, 0, 0));
        }
        Probe::Stack => {
            v.push(I::new(0x72, 10, 0, -1, 0x5a));
            v.push(I::new(0x72, 10, 0, -512, 0x6b));
            v.push(isa::ldxb(0, 10, -1));
            v.push(isa::ldxb(2, 10, -512));
            v.push(I::new(0x67, 0, 0, 0, 8));
            v.push(I::new(0x4f, 0, 2, 0, 0));
        }
    }
    v.push(isa::EXIT);
    v
}

#[derive(Clone, Copy, Debug)]
struct Pkt {
    buf: usize,
    len: usize,
}

const PKTS: [Pkt; 8] = [Pkt { buf: 0, len: 0 }, Pkt { buf: 0, len: 1 }, Pkt { buf: 0, len: 7 }, Pkt { buf: 0, len: 8 }, Pkt { buf: 0, len: 64 }, Pkt { buf: 1, len: 8 }, Pkt { buf: 1, len: 64 }, Pkt { buf: 2, len: BIG }];

fn applicable(kind: VmKind, p: Probe, pk: &Pkt) -> bool {
    match p {
        Probe::R1 => !matches!(kind, VmKind::Fixed(..)),
        Probe::DataStart => matches!(kind, VmKind::Fixed(..)) && pk.len > 0,
        Probe::DataEnd => matches!(kind, VmKind::Fixed(..)) && pk.len > 0,
        Probe::Len => matches!(kind, VmKind::Fixed(..)),
        Probe::LdAbs0 => !matches!(kind, VmKind::NoData) && pk.len > 0,
        Probe::LdAbsLast | Probe::LdAbsAfter(_) | Probe::LdIndAfter(_) | Probe::LdAbsAfter2(..) => !matches!(kind, VmKind::NoData) && pk.len > 6,
        Probe::LdAbsBig | Probe::LdIndBig => !matches!(kind, VmKind::NoData) && pk.len > 0x10004,
        Probe::LdIndChain => !matches!(kind, VmKind::NoData) && pk.len > 300,
        Probe::Stack | Probe::StackAcrossNested => true,
    }
}

/// A packet load beyond the packet is an out-of-bounds access: compiled code may trap or (JIT:
/// no checks) fault. Such executions are outside this property and are not run on compilers.
fn skip_exec(kind: VmKind, eng: Eng, p: Probe, pk: &Pkt) -> bool {
    eng != Eng::Interp && matches!(p, Probe::LdAbs0 | Probe::LdAbsLast | Probe::LdAbsAfter(_) | Probe::LdIndAfter(_) | Probe::LdAbsAfter2(..) | Probe::LdAbsBig | Probe::LdIndBig | Probe::LdIndChain) && !applicable(kind, p, pk)
}

fn expected(kind: VmKind, p: Probe, pk: &Pkt, bufs: &[Buf; 3], mb: &Buf) -> u64 {
    let addr = bufs[pk.buf].addr();
    match p {
        Probe::R1 => match kind {
            VmKind::Raw => {
                if pk.len == 0 {
                    0
                } else {
                    addr
                }
            }
            VmKind::NoData => 0,
            VmKind::Mbuff => mb.addr(),
            VmKind::Fixed(..) => 0,
        },
        Probe::DataStart => addr,
        Probe::DataEnd => addr + pk.len as u64,
        Probe::Len => pk.len as u64,
        Probe::LdAbs0 => bufs[pk.buf].bytes()[0] as u64,
        Probe::LdAbsLast | Probe::LdAbsAfter(_) | Probe::LdIndAfter(_) | Probe::LdAbsAfter2(..) => bufs[pk.buf].bytes()[6] as u64,
        Probe::LdAbsBig | Probe::LdIndBig => bufs[pk.buf].bytes()[0x10004] as u64,
        Probe::LdIndChain => bufs[pk.buf].bytes()[bufs[pk.buf].bytes()[3] as usize + 4] as u64,
        Probe::Stack | Probe::StackAcrossNested => 0x5a6b,
    }
}

fn kinds() -> Vec<VmKind> {
    let mut v = vec![VmKind::Raw, VmKind::NoData, VmKind::Mbuff];
    for a in OFFS {
        for b in OFFS {
            if a.abs_diff(b) >= 8 {
                v.push(VmKind::Fixed(a, b));
            }
        }
    }
    v
}

/// One group: a VM kind x engine x probe; all packet triples; for the fixed VM also a
/// set_program to a second offset pair in the middle of each sequence.
fn group(s: &mut Sink, kind: VmKind, eng: Eng, p: Probe, thorough: bool, reload: u8) {
    // reload > 0: the VM object held a decoy program before (vm::set_reload)
    let _reload = crate::isaeng::ReloadGuard::new(reload);
    let (a, b) = match kind {
        VmKind::Fixed(a, b) => (a, b),
        _ => (0, 8),
    };
    if !PKTS.iter().any(|pk| applicable(kind, p, pk)) {
        return; // this probe says nothing about this VM kind
    }
    let bufs = [Buf::new(64, 0), Buf::new(64, 0), Buf::new(BIG, 0)];
    bufs[0].fill(&(0..64).map(|k| 0x40 + k as u8).collect::<Vec<_>>());
    bufs[1].fill(&(0..64).map(|k| 0x90 + k as u8).collect::<Vec<_>>());
    bufs[2].fill(&(0..BIG).map(|k| ((k * 31) ^ ((k >> 8) * 17) ^ ((k >> 16) * 101) ^ ((k >> 15) * 59)) as u8).collect::<Vec<_>>());
    let mb = Buf::new(32, 0);
    // the caller's metadata buffer follows the documented convention: data pointers at 0 and 8
    let prog = isa::enc(&probe_prog(p, a, b));
    let (a2, b2) = (b, a); // second offset pair for set_program: swapped
    let prog2 = isa::enc(&probe_prog(p, a2, b2));
    let class = format!("{}-{:?}", match kind { VmKind::Raw => "raw", VmKind::NoData => "nodata", VmKind::Mbuff => "mbuff", VmKind::Fixed(..) => "fixed" }, p).replace(' ', "");
    let rp = json!({"kind":"ctx","vm":vm::kind_name(kind),"eng":eng.name(),"probe":format!("{p:?}"),"reload":reload});
    let mut vmx = match AnyVm::new(kind, Some(&prog)) {
        Ok(v) => v,
        Err(e) => {
            s.violation(&format!("verifier/{class}/rejects-template"), e, rp);
            return;
        }
    };
    let _ = vmx.register_helper(1, ctx_helper);
    let _ = vmx.register_helper(2, ctx_nested_helper);
    match catch(|| vmx.compile(eng)) {
        Ok(Ok(())) => {}
        Ok(Err(e)) => {
            s.violation(&format!("{}/{class}/compile-err", eng.name()), e, rp);
            return;
        }
        Err(m) => {
            s.violation(&format!("{}/{class}/compile-{}", eng.name(), panic_class(&m)), m, rp);
            return;
        }
    }
    let mut exec = |vmx: &mut AnyVm, pk: &Pkt| -> vm::Out {
        let mem = (bufs[pk.buf].ptr, pk.len);
        let mbr = if matches!(kind, VmKind::Mbuff) { mb.raw() } else { vm::empty_raw() };
        vmx.exec_out(eng, mem, mbr)
    };
    let mut check = |s: &mut Sink, kind: VmKind, pk: &Pkt, out: vm::Out, step: usize, seq: &[usize]| {
        s.count("evaluations", 1);
        s.count("transitions", 1);
        s.count("traces_validated_against_impl", 1);
        if !applicable(kind, p, pk) {
            s.outcome("not-applicable(totality only)", 1);
            if let vm::Out::Panic(m) = out {
                s.violation(&format!("{}/{class}/{}", eng.name(), panic_class(&m)), m, rp.clone());
            }
            return;
        }
        let want = expected(kind, p, pk, &bufs, &mb);
        match out {
            vm::Out::Ok(v) if v == want => s.outcome("ok", 1),
            vm::Out::Ok(v) => {
                // describe without raw addresses
                let d = (v.wrapping_sub(want)) as i64;
                let how = if want != 0 && d.unsigned_abs() < 1 << 20 { format!("off by {d}") } else if v == 0 { "null".into() } else { "unrelated value".into() };
                s.violation(&format!("{}/{class}/wrong-value", eng.name()), format!("execution {step} of the sequence {seq:?} (packets as (buffer,len) {:?}): {how}", seq.iter().map(|k| (PKTS[*k].buf, PKTS[*k].len)).collect::<Vec<_>>()), rp.clone());
            }
            vm::Out::Err(e) => s.violation(&format!("{}/{class}/err", eng.name()), format!("execution {step} of {seq:?} returned Err({e})"), rp.clone()),
            vm::Out::Panic(m) => s.violation(&format!("{}/{class}/{}", eng.name(), panic_class(&m)), m, rp.clone()),
        }
    };
    let np = PKTS.len();
    for i in 0..np {
        for j in 0..np {
            for k in 0..np {
                if !thorough && (i + 2 * j + 3 * k) % 3 != 0 && !(i == j || j == k) {
                    continue;
                }
                if matches!(p, Probe::LdAbsAfter2(..)) && !(i == j && j == k) {
                    continue;
                }
                let seq = [i, j, k];
                s.count("states", 1);
                s.count("distinct_nontrivial", 1);
                for (step, q) in seq.iter().enumerate() {
                    if skip_exec(kind, eng, p, &PKTS[*q]) {
                        continue;
                    }
                    let out = exec(&mut vmx, &PKTS[*q]);
                    check(s, kind, &PKTS[*q], out, step, &seq);
                }
            }
        }
    }
    // set_program with new offsets between executions (fixed VM): recompile and run again
    if matches!(p, Probe::LdAbsAfter2(..)) {
        return;
    }
    if let VmKind::Fixed(..) = kind {
        let kind2 = VmKind::Fixed(a2, b2);
        for i in 0..np {
            if !skip_exec(kind, eng, p, &PKTS[i]) {
                let _ = exec(&mut vmx, &PKTS[i]);
            }
            match vmx.set_program(&prog2, (a2, b2)) {
                Ok(()) => {}
                Err(e) => {
                    s.violation(&format!("verifier/{class}/rejects-template"), e, rp.clone());
                    return;
                }
            }
            if let Ok(Err(e)) | Err(e) = catch(|| vmx.compile(eng)) {
                s.violation(&format!("{}/{class}/compile-err", eng.name()), e, rp.clone());
                return;
            }
            for j in [i, (i + 3) % np] {
                if skip_exec(kind2, eng, p, &PKTS[j]) {
                    continue;
                }
                let out = exec(&mut vmx, &PKTS[j]);
                check(s, kind2, &PKTS[j], out, 1, &[i, j]);
            }
            // and back
            if vmx.set_program(&prog, (a, b)).is_err() {
                return;
            }
            if let Ok(Err(_)) | Err(_) = catch(|| vmx.compile(eng)) {
                return;
            }
            if skip_exec(kind, eng, p, &PKTS[i]) {
                continue;
            }
            let out = exec(&mut vmx, &PKTS[i]);
            check(s, kind, &PKTS[i], out, 2, &[i, i, i]);
        }
    }
    s.sample(&class, || json!({"vm": vm::kind_name(kind), "probe": format!("{p:?}"), "program": isa::listing(&probe_prog(p, a, b))}));
}

pub fn run(s: &mut Sink) {
    let thorough = s.tier == Tier::Thorough;
    let ks = kinds();
    s.meta.insert("alphabet".into(), json!({
        "vm_kinds": "raw, nodata, mbuff, fixed x every ordered pair of non-overlapping offsets from {0,8,16,0x40,0x48,0x50,0x1000,0x10000}",
        "engines": ["interp", "jit", "cranelift"],
        "probes": probes().iter().map(|p| format!("{p:?}")).collect::<Vec<_>>(),
        "instructions_before_a_packet_load": ctx_alphabet().iter().map(|x| x.0).collect::<Vec<_>>(),
        "packets": "prefixes of lengths 0,1,7,8,64 of buffer A and 8,64 of buffer B (same start address, different lengths; different addresses), a 69632-byte packet",
        "sequences": if thorough {"all 512 ordered triples of packets on one VM"} else {"a third of the ordered triples plus all with a repeated packet"},
        "set_program": "fixed VM: offsets swapped by set_program between executions, then swapped back",
        "vm_history": "raw, nodata, mbuff and two fixed VMs also on VM objects that held another program before (two decoy programs)",
    }));
    s.meta.insert("bound".into(), json!("sequences of 3 executions per VM; one set_program round trip"));
    s.meta.insert("rule".into(), json!("state = (VM kind, offsets, engine, probe, packet triple); each execution is a transition compared with the value computed from the caller's buffer addresses; distinct by construction"));
    let mut g = 0u64;
    for kind in &ks {
        for eng in [Eng::Interp, Eng::Jit, Eng::Cl] {
            let idx = g;
            g += 1;
            if !s.take(idx) {
                continue;
            }
            if s.expired() {
                s.cut("vm kind x engine x probe x packet sequences");
                return;
            }
            for p in probes() {
                if matches!(p, Probe::LdAbsAfter2(..)) && !matches!(kind, VmKind::Raw | VmKind::Mbuff | VmKind::Fixed(0x40, 0x50)) {
                    continue;
                }
                let reloads: &[u8] = if matches!(kind, VmKind::Raw | VmKind::NoData | VmKind::Mbuff | VmKind::Fixed(0x40, 0x50) | VmKind::Fixed(8, 0)) { &[0, 1, 3] } else { &[0] };
                for reload in reloads {
                    let reload = *reload;
                    let rp = json!({"kind":"ctx","vm":vm::kind_name(*kind),"eng":eng.name(),"probe":format!("{p:?}"),"reload":reload});
                    s.mark(idx, &format!("{}/ctx", eng.name()), &rp);
                    let k = *kind;
                    crate::isaeng::run_group(s, eng, &format!("ctx-{p:?}").replace(' ', ""), &rp, move |cs| group(cs, k, eng, p, thorough, reload));
                }
            }
        }
    }
    s.done("vm kind x engine x probe x packet sequences");
}

pub fn replay(v: &Value) -> Vec<String> {
    let kind = vm::parse_kind(v["vm"].as_str().unwrap());
    let eng = Eng::parse(v["eng"].as_str().unwrap());
    let pname = v["probe"].as_str().unwrap();
    let p = *probes().iter().find(|p| format!("{p:?}") == pname).unwrap();
    let mut s = Sink::new("replay", Tier::Thorough, 0, 1, None, None, 3600);
    let rp = v.clone();
    let reload = v["reload"].as_u64().unwrap_or(0) as u8;
    crate::isaeng::run_group(&mut s, eng, "ctx", &rp, move |cs| group(cs, kind, eng, p, true, reload));
    let r = s.finish();
    r["violations"].as_array().unwrap().iter().map(|x| format!("{}: {}", x["sig"].as_str().unwrap(), x["detail"].as_str().unwrap())).collect()
}
