//! Engine `mem`: access x address x layout explorer.
//!   C02  the interpreter performs an access iff all its bytes lie inside one region
//!   C11  Cranelift traps before any access outside packet / metadata buffer / stack

use crate::common::*;
use crate::isa::{self, I};
use crate::vm::{self, AnyVm, Buf, Eng, VmKind};
use serde_json::{json, Value};

#[derive(Clone, Copy, Debug, PartialEq, Eq)]
pub enum Acc {
    Ldx,
    St,
    Stx,
    Xadd,
    LdAbs,
    LdInd,
}

#[derive(Clone, Copy, Debug, PartialEq, Eq)]
pub enum Target {
    /// absolute effective address
    Abs(u64),
    /// effective address = r10 + delta
    Stack(i64),
    /// effective address = address of the loaded program's own bytes + k (never a region of the
    /// program's memory: the property lists packet, metadata buffer, stack and registered ranges)
    Prog(u64),
}

#[derive(Clone, Debug)]
pub struct Layout {
    pub kind: VmKind,
    pub pkt_len: usize,
    pub mb_len: usize,
    /// (offset, length) inside the 256-byte allowed-memory arena
    pub allowed: Vec<(usize, usize)>,
}

pub struct Arena {
    pub pkt: Buf,
    pub mb: Buf,
    pub al: Buf,
}

const AL_LEN: usize = 256;
const BIG_PKT: usize = 0x11000;
const STORE_IMM: i32 = 0x8bad_f00du32 as i32;
const STORE_REG: u64 = 0x1122_3344_5566_7788;

impl Arena {
    pub fn new(l: &Layout) -> Arena {
        Arena { pkt: Buf::new(l.pkt_len, 0), mb: Buf::new(l.mb_len, 0), al: Buf::new(AL_LEN, 0) }
    }
    pub fn init(&self) {
        let f = |b: &Buf, salt: u8| {
            let v: Vec<u8> = (0..b.len).map(|k| (k as u8).wrapping_mul(13).wrapping_add(salt)).collect();
            b.fill(&v);
            b.reset_canary();
        };
        f(&self.pkt, 0x31);
        f(&self.mb, 0x62);
        f(&self.al, 0x93);
    }
    fn snapshot(&self) -> Vec<u8> {
        let mut v = self.pkt.bytes().to_vec();
        v.extend_from_slice(self.mb.bytes());
        v.extend_from_slice(self.al.bytes());
        v
    }
}

/// Regions the access may lie in: (name, start, end) absolute.
fn regions(l: &Layout, a: &Arena) -> Vec<(&'static str, u64, u64)> {
    let mut v = vec![];
    if l.pkt_len > 0 && !matches!(l.kind, VmKind::NoData) {
        v.push(("packet", a.pkt.addr(), a.pkt.addr() + l.pkt_len as u64));
    }
    if l.mb_len > 0 && matches!(l.kind, VmKind::Mbuff) {
        v.push(("mbuff", a.mb.addr(), a.mb.addr() + l.mb_len as u64));
    }
    for (o, n) in &l.allowed {
        v.push(("allowed", a.al.addr() + *o as u64, a.al.addr() + (*o + *n) as u64));
    }
    v
}

#[derive(Clone, Copy, PartialEq, Eq, Debug)]
pub enum Expect {
    Inside,
    Outside,
    /// bytes all inside the union of regions but not inside a single one: the property does
    /// not say - not compared
    Unclear,
}

fn classify(t: Target, w: u64, regs: &[(&'static str, u64, u64)]) -> Expect {
    match t {
        Target::Prog(_) => Expect::Outside,
        Target::Stack(d) => {
            if d >= -512 && d + w as i64 <= 0 {
                Expect::Inside
            } else {
                Expect::Outside
            }
        }
        Target::Abs(ea) => {
            let Some(end) = ea.checked_add(w) else { return Expect::Outside };
            if regs.iter().any(|(_, s, e)| *s <= ea && end <= *e) {
                return Expect::Inside;
            }
            // union coverage?
            let all_covered = (0..w).all(|k| regs.iter().any(|(_, s, e)| *s <= ea + k && ea + k < *e));
            if all_covered {
                Expect::Unclear
            } else {
                Expect::Outside
            }
        }
    }
}

#[derive(Clone, Copy, Debug)]
pub struct MemCase {
    pub acc: Acc,
    pub w: u8,
    pub t: Target,
    pub off: i16,
    /// base register used for the address
    pub base: u8,
    /// precede the access by a 1-byte load through the same base register and offset (in the
    /// same basic block) - only generated when that byte is itself inside a region
    pub pre_narrow: bool,
    /// precede a store-type access by a 1-byte immediate store of the byte already there (same
    /// base register and offset): memory is unchanged by it
    pub pre_store: Option<u8>,
    /// add this to r10 after the address has been formed and before the access: only loadable under
    /// a permissive verifier; the 512-byte stack region does not move with the register
    pub r10_shift: i32,
    /// the same instruction is first executed on an in-bounds address (stack slot or packet start)
    /// and the address register then gets its final value by 1: being rewritten, 2: an `add`,
    /// 3: the return value of a helper call (base register r0)
    pub pre_same: u8,
    /// the stored / added value is r10 itself (C11 only: what is stored is an address)
    pub val_r10: bool,
    /// C02: the program is executed once before (some of) the allowed ranges are registered: 1 = all
    /// ranges registered after the first execution, 2 = the first range before, the others after
    pub late_reg: u8,
}

pub static RET_PTR: std::sync::atomic::AtomicU64 = std::sync::atomic::AtomicU64::new(0);
pub fn ret_ptr_helper(_a: u64, _b: u64, _c: u64, _d: u64, _e: u64) -> u64 {
    RET_PTR.load(std::sync::atomic::Ordering::Relaxed)
}

fn opcode(acc: Acc, w: u8) -> u8 {
    let sz = match w {
        1 => 0x10,
        2 => 0x08,
        4 => 0x00,
        _ => 0x18,
    };
    match acc {
        Acc::Ldx => 0x61 | sz,
        Acc::St => 0x62 | sz,
        Acc::Stx => 0x63 | sz,
        Acc::Xadd => 0xc3 | sz,
        Acc::LdAbs => 0x20 | sz,
        Acc::LdInd => 0x40 | sz,
    }
}

/// Build the program for a case. `pkt_addr` is needed for ldabs/ldind (address = packet + idx).
pub fn program(c: &MemCase, pkt_addr: u64, pkt_len: usize) -> Option<Vec<I>> {
    let b = c.base;
    let opc = opcode(c.acc, c.w);
    let mut p = vec![];
    // value register for stx / xadd: r7 (or r6 when the base is r7)
    let vreg = if c.val_r10 { 10 } else if b == 7 { 6 } else { 7 };
    if !c.val_r10 {
        p.extend(isa::lddw(vreg, STORE_REG));
    }
    let set_base = |p: &mut Vec<I>, reg: u8, t: Target, off: i64| match t {
        Target::Abs(ea) => {
            p.extend(isa::lddw(reg, ea.wrapping_sub(off as u64)));
            true
        }
        Target::Stack(d) => {
            let k = d - off;
            if k < i32::MIN as i64 || k > i32::MAX as i64 {
                return false;
            }
            p.push(isa::mov64r(reg, 10));
            p.push(isa::add64i(reg, k as i32));
            true
        }
        Target::Prog(_) => false, // resolved to Abs by the caller
    };
    // pre_same: run the instruction on a safe address first, then move the address register
    let pre_same = |p: &mut Vec<I>, insn: I| -> bool {
        if c.pre_same == 0 {
            return set_base(p, b, c.t, c.off as i64);
        }
        // the safe address: a stack slot, unless the final address is reached by adding a
        // statically known distance to it (then the packet start, for loads only: a store there
        // would change the memory the oracle watches)
        if c.pre_same == 5 {
            // as 4, but the address register is r1 as the VM set it at entry (the context pointer),
            // so the first iteration addresses [r1+off] and r1 itself is advanced
            if b != 1 || c.off < 0 || !set_base(p, 9, c.t, c.off as i64) {
                return false;
            }
            p.push(I::new(0x1f, 9, 1, 0, 0)); // sub64 r9, r1
            p.push(isa::mov64i(4, 0));
            return true;
        }
        if c.pre_same == 4 {
            // a two-iteration loop whose head is the access: first on a stack slot, then - the
            // address register advanced by a run-time distance - on the target
            p.push(isa::stdw(10, -64, 0x0a0b0c0d));
            if !set_base(p, 9, c.t, c.off as i64) || !set_base(p, b, Target::Stack(-64), c.off as i64) {
                return false;
            }
            p.push(I::new(0x1f, 9, b, 0, 0)); // sub64 r9, b: distance from the safe to the final base
            p.push(isa::mov64i(4, 0));
            return true;
        }
        let is_load = matches!(c.acc, Acc::Ldx);
        let (safe, delta): (Target, Option<i64>) = match c.t {
            Target::Prog(_) => return false,
            Target::Stack(d) => (Target::Stack(-64), Some(d + 64)),
            Target::Abs(ea) if c.pre_same == 2 => {
                if pkt_len < 8 || !is_load {
                    return false;
                }
                (Target::Abs(pkt_addr), Some(ea.wrapping_sub(pkt_addr) as i64))
            }
            Target::Abs(_) => (Target::Stack(-64), None),
        };
        p.push(isa::stdw(10, -64, 0x0a0b0c0d));
        if !set_base(p, b, safe, c.off as i64) {
            return false;
        }
        p.push(insn);
        match c.pre_same {
            1 => set_base(p, b, c.t, c.off as i64),
            2 => {
                let d = delta.unwrap();
                p.extend(isa::lddw(9, d as u64));
                p.push(I::new(0x0f, b, 9, 0, 0)); // add64 b, r9
                true
            }
            _ => {
                // the helper returns RET_PTR (set by the harness to target - off); base must be r0
                if b != 0 || matches!(c.t, Target::Stack(_)) {
                    return false;
                }
                p.push(isa::call_helper(7));
                true
            }
        }
    };
    // pre_same == 4: close the loop after the access (the access is the loop head)
    let loop_tail = |p: &mut Vec<I>| {
        if c.pre_same >= 4 {
            p.push(I::new(0x0f, b, 9, 0, 0)); // add64 b, r9
            p.push(isa::add64i(4, 1));
            p.push(I::new(0xa5, 4, 0, -4, 2)); // jlt r4, 2, back to the access
        }
    };
    let mut stack_reload: Option<i64> = None;
    match c.acc {
        Acc::Ldx => {
            if let Target::Stack(d) = c.t {
                // define the bytes first (only when the access is wholly inside the stack)
                if d >= -512 && d + c.w as i64 <= 0 {
                    let lo = d.div_euclid(8) * 8;
                    p.push(isa::stdw(10, lo as i16, 0x5a5b5c5d));
                    if (d + c.w as i64 - 1).div_euclid(8) * 8 != lo {
                        p.push(isa::stdw(10, (lo + 8) as i16, 0x5a5b5c5d));
                    }
                }
            }
            if !pre_same(&mut p, I::new(opc, 8, b, c.off, 0)) {
                return None;
            }
            if c.r10_shift != 0 {
                p.push(isa::add64i(10, c.r10_shift));
            }
            if c.pre_narrow {
                p.push(I::new(0x71, 9, b, c.off, 0));
            }
            p.push(I::new(opc, 8, b, c.off, 0));
            loop_tail(&mut p);
            p.push(isa::mov64r(0, 8));
        }
        Acc::St | Acc::Stx | Acc::Xadd => {
            if let Target::Stack(d) = c.t {
                if d >= -512 && d + c.w as i64 <= 0 {
                    let lo = d.div_euclid(8) * 8;
                    p.push(isa::stdw(10, lo as i16, 0x01020304));
                    if (d + c.w as i64 - 1).div_euclid(8) * 8 != lo {
                        p.push(isa::stdw(10, (lo + 8) as i16, 0x01020304));
                    }
                    stack_reload = Some(lo);
                }
            }
            let the_store = match c.acc {
                Acc::St => I::new(opc, b, 0, c.off, STORE_IMM),
                _ => I::new(opc, b, vreg, c.off, 0),
            };
            if !pre_same(&mut p, the_store) {
                return None;
            }
            if c.r10_shift != 0 {
                p.push(isa::add64i(10, c.r10_shift));
            }
            if c.pre_narrow {
                p.push(I::new(0x71, 9, b, c.off, 0));
            }
            if let Some(v) = c.pre_store {
                p.push(I::new(0x72, b, 0, c.off, v as i32));
            }
            match c.acc {
                Acc::St => p.push(I::new(opc, b, 0, c.off, STORE_IMM)),
                _ => p.push(I::new(opc, b, vreg, c.off, 0)),
            }
            loop_tail(&mut p);
            if c.r10_shift != 0 {
                p.push(isa::add64i(10, -c.r10_shift));
            }
            match stack_reload {
                Some(lo) => p.push(isa::ldxdw(0, 10, lo as i16)),
                None => p.push(isa::mov64i(0, 0)),
            }
        }
        Acc::LdAbs => {
            let Target::Abs(ea) = c.t else { return None };
            let idx = ea.wrapping_sub(pkt_addr);
            if idx > i32::MAX as u64 {
                return None;
            }
            if c.pre_narrow {
                p.push(I::new(0x30, 0, 0, 0, idx as i32));
            }
            p.push(I::new(opc, 0, 0, 0, idx as i32));
        }
        Acc::LdInd => {
            let Target::Abs(ea) = c.t else { return None };
            // imm = off (as a small non-negative immediate), src = idx - imm
            let idx = ea.wrapping_sub(pkt_addr);
            let imm = if b == 7 && (5..=i32::MAX as u64).contains(&idx) { (idx - 5) as i32 } else { (c.off as i32).rem_euclid(4096) };
            if c.pre_same == 4 {
                // the ldind is the head of a two-iteration loop: src = 0 first, then src advanced
                if (imm as i64) < 0 || imm as usize + c.w as usize > pkt_len {
                    return None;
                }
                p.extend(isa::lddw(b, 0));
                p.extend(isa::lddw(9, idx.wrapping_sub(imm as u64)));
                p.push(isa::mov64i(4, 0));
                p.push(I::new(opc, 0, b, 0, imm));
                loop_tail(&mut p);
                p.push(isa::EXIT);
                return Some(p);
            } else if c.pre_same != 0 {
                // the same ldind on packet byte `imm` first (src = 0), then src moves
                if c.pre_same > 2 || (imm as i64) < 0 || imm as usize + c.w as usize > pkt_len {
                    return None;
                }
                p.extend(isa::lddw(b, 0));
                p.push(I::new(opc, 0, b, 0, imm));
                if c.pre_same == 1 {
                    p.extend(isa::lddw(b, idx.wrapping_sub(imm as u64)));
                } else {
                    p.extend(isa::lddw(9, idx.wrapping_sub(imm as u64)));
                    p.push(I::new(0x0f, b, 9, 0, 0));
                }
            } else {
                p.extend(isa::lddw(b, idx.wrapping_sub(imm as u64)));
            }
            if c.pre_narrow {
                p.push(I::new(0x50, 0, b, 0, imm));
            }
            p.push(I::new(opc, 0, b, 0, imm));
        }
    }
    p.push(isa::EXIT);
    Some(p)
}

/// The byte the arena (after `init`) or the prepared stack holds at the first byte of the access.
fn first_byte(c: &MemCase, a: &Arena) -> Option<u8> {
    match c.t {
        Target::Abs(ea) => expected_load(a, ea, 1).map(|v| v as u8),
        Target::Prog(_) => None,
        Target::Stack(d) => {
            if !(-512..0).contains(&d) {
                return None;
            }
            // stdw lo, 0x01020304 (sign-extended, little endian)
            let lo = d.div_euclid(8) * 8;
            Some((0x01020304u64).to_le_bytes()[(d - lo) as usize])
        }
    }
}

fn expected_load(a: &Arena, ea: u64, w: usize) -> Option<u64> {
    for b in [&a.pkt, &a.mb, &a.al] {
        if b.len > 0 && ea >= b.addr() && ea + w as u64 <= b.addr() + b.len as u64 {
            let o = (ea - b.addr()) as usize;
            let mut v = 0u64;
            for k in 0..w {
                v |= (b.bytes()[o + k] as u64) << (8 * k);
            }
            return Some(v);
        }
    }
    None
}

fn case_json(c: &MemCase, l: &Layout, eng: Eng, a: &Arena) -> Value {
    // addresses are described relative to their buffers so that the record is replayable
    let rel = |ea: u64| -> Value {
        // relative to the nearest buffer (buffers are separate mappings; a large packet is 68 KiB)
        let best = [("packet", &a.pkt), ("mbuff", &a.mb), ("allowed", &a.al)].into_iter()
            .map(|(n, b)| (n, ea.wrapping_sub(b.addr()) as i64))
            .filter(|(n, d)| d.unsigned_abs() < 4096 || (*n == "packet" && *d >= 0 && (*d as usize) < l.pkt_len + 4096))
            .min_by_key(|(_, d)| d.unsigned_abs());
        if let Some((n, d)) = best {
            return json!({"rel": n, "delta": d});
        }
        json!({"abs": format!("{ea:#x}")})
    };
    json!({"kind":"mem","eng":eng.name(),"acc":format!("{:?}", c.acc),"w":c.w,"off":c.off,"base":c.base,"pre_narrow":c.pre_narrow,"pre_store":c.pre_store,"r10_shift":c.r10_shift,"pre_same":c.pre_same,"val_r10":c.val_r10,"late_reg":c.late_reg,
           "target": match c.t { Target::Abs(ea) => rel(ea), Target::Stack(d) => json!({"rel":"stack","delta":d}), Target::Prog(k) => json!({"rel":"prog","delta":k}) },
           "layout": {"vm": vm::kind_name(l.kind), "pkt": l.pkt_len, "mb": l.mb_len, "allowed": l.allowed}})
}

fn target_from_json(v: &Value, a: &Arena) -> Target {
    let t = &v["target"];
    if let Some(r) = t["rel"].as_str() {
        let d = t["delta"].as_i64().unwrap();
        match r {
            "stack" => Target::Stack(d),
            "prog" => Target::Prog(d as u64),
            "packet" => Target::Abs(a.pkt.addr().wrapping_add(d as u64)),
            "mbuff" => Target::Abs(a.mb.addr().wrapping_add(d as u64)),
            _ => Target::Abs(a.al.addr().wrapping_add(d as u64)),
        }
    } else {
        Target::Abs(u64::from_str_radix(t["abs"].as_str().unwrap().trim_start_matches("0x"), 16).unwrap())
    }
}

fn acc_name(c: &MemCase) -> String {
    format!("{}{}", match c.acc { Acc::Ldx => "ldx", Acc::St => "st", Acc::Stx => "stx", Acc::Xadd => "xadd", Acc::LdAbs => "ldabs", Acc::LdInd => "ldind" }, isa::size_suffix(c.w))
}

fn where_class(c: &MemCase, l: &Layout, a: &Arena) -> String {
    // which region edge is the access near (for the signature)
    match c.t {
        Target::Stack(_) => "stack".into(),
        Target::Prog(_) => "program-image".into(),
        Target::Abs(ea) => {
            for (n, s, e) in regions(l, a) {
                if ea.wrapping_sub(s) as i64 >= -16 && (ea.wrapping_sub(e) as i64) <= 16 {
                    return n.into();
                }
            }
            if ea < 4096 {
                "null".into()
            } else if ea > u64::MAX - 4096 {
                "wrap".into()
            } else {
                "elsewhere".into()
            }
        }
    }
}

/// pre_same == 5: the first iteration of the loop is the same access on [r1+off], i.e. on the start
/// of the packet (raw VM) or of the metadata buffer (metadata VM). Returns false when that first
/// access would not be in bounds (the case is then not generated); for store-type accesses the
/// expected effect of the first iteration is applied to the snapshot `before`.
fn first_iteration_on_ctx(c: &MemCase, l: &Layout, before: &mut [u8]) -> bool {
    let (base, len) = match l.kind {
        VmKind::Raw => (0usize, l.pkt_len),
        VmKind::Mbuff => (l.pkt_len, l.mb_len),
        _ => return false,
    };
    if c.off < 0 || c.off as usize + c.w as usize > len || matches!(c.acc, Acc::LdAbs | Acc::LdInd) {
        return false;
    }
    if matches!(c.acc, Acc::Xadd) && c.off as usize % c.w as usize != 0 {
        return false;
    }
    let o = base + c.off as usize;
    let w = c.w as usize;
    let mut old = 0u64;
    for k in 0..w {
        old |= (before[o + k] as u64) << (8 * k);
    }
    let val = match c.acc {
        Acc::St => STORE_IMM as i64 as u64,
        Acc::Stx => STORE_REG,
        Acc::Xadd => if w == 4 { (old as u32).wrapping_add(STORE_REG as u32) as u64 } else { old.wrapping_add(STORE_REG) },
        _ => return true,
    };
    for k in 0..w {
        before[o + k] = (val >> (8 * k)) as u8;
    }
    true
}

fn accept_all(_p: &[u8]) -> Result<(), std::io::Error> {
    Ok(())
}

fn make_vm<'a>(kind: VmKind, bytes: &'a [u8], permissive: bool) -> Result<AnyVm<'a>, String> {
    if !permissive {
        return AnyVm::new(kind, Some(bytes)).map_err(|e| format!("load: {e}"));
    }
    let mut vm = AnyVm::new(kind, None).map_err(|e| format!("load: {e}"))?;
    vm.set_verifier(accept_all).map_err(|e| format!("load: {e}"))?;
    vm.set_program(bytes, (0, 0)).map_err(|e| format!("load: {e}"))?;
    Ok(vm)
}

/// C02: one case on the interpreter. The registered ranges live in a HashSet whose iteration
/// order is drawn per VM object and is not under the harness's control: with two or more ranges a
/// case that touches them is run on 24 fresh VM objects (a lookup that depends on the order among
/// k <= 4 candidate ranges escapes all 24 with probability < 4^-24... at most (3/4)^24 = 0.1%).
pub fn c02_check(s: &mut Sink, c: &MemCase, l: &Layout, a: &Arena) {
    let reps = if l.allowed.len() >= 2 && where_class(c, l, a) == "allowed" { 24 } else { 1 };
    let v0 = s.n_violations();
    for rep in 0..reps {
        c02_check_once(s, c, l, a, rep == 0);
        if s.n_violations() != v0 {
            break;
        }
    }
}

fn c02_check_once(s: &mut Sink, c: &MemCase, l: &Layout, a: &Arena, first: bool) {
    let plen = if matches!(l.kind, VmKind::NoData) { 0 } else { l.pkt_len };
    // Target::Prog: the address of the program image is known once its buffer exists: build the
    // program with a placeholder, then again - same length - with the real address, into the same
    // (8-aligned) buffer, which is the one handed to the VM
    let mut prog_store: Vec<u64> = vec![];
    let enc_bytes: Vec<u8>;
    let bytes: &[u8] = if let Target::Prog(k) = c.t {
        let Some(p0) = program(&MemCase { t: Target::Abs(0), ..*c }, a.pkt.addr(), plen) else { return };
        let n = p0.len() * 8;
        prog_store.resize(p0.len(), 0);
        let ea = prog_store.as_ptr() as u64 + k.min(n as u64 - 8);
        let Some(p1) = program(&MemCase { t: Target::Abs(ea), ..*c }, a.pkt.addr(), plen) else { return };
        let enc = isa::enc(&p1);
        assert_eq!(enc.len(), n);
        unsafe {
            std::ptr::copy_nonoverlapping(enc.as_ptr(), prog_store.as_mut_ptr() as *mut u8, n);
            std::slice::from_raw_parts(prog_store.as_ptr() as *const u8, n)
        }
    } else {
        let Some(prog) = program(c, a.pkt.addr(), plen) else { return };
        enc_bytes = isa::enc(&prog);
        &enc_bytes
    };
    let regs = regions(l, a);
    let exp = classify(c.t, c.w as u64, &regs);
    if first {
        s.count("evaluations", 1);
        s.count("states", 1);
        s.count("transitions", 1);
    } else {
        s.count("repetitions_on_fresh_vm_objects", 1);
    }
    if exp == Expect::Unclear {
        s.outcome("unclear(straddles-two-adjacent-regions)", 1);
        return;
    }
    a.init();
    let before = a.snapshot();
    let rp = || case_json(c, l, Eng::Interp, a);
    let mut before = before;
    if c.pre_same == 5 && !first_iteration_on_ctx(c, l, &mut before) {
        return;
    }
    let r = catch(|| {
        let mut vm = make_vm(l.kind, bytes, c.r10_shift != 0)?;
        if c.pre_same == 3 {
            if let Target::Abs(ea) = c.t {
                RET_PTR.store(ea.wrapping_sub(c.off as i64 as u64), std::sync::atomic::Ordering::Relaxed);
            }
            vm.register_helper(7, ret_ptr_helper)?;
        }
        let mem = if matches!(l.kind, VmKind::NoData) { vm::empty_raw() } else { (a.pkt.ptr, l.pkt_len) };
        let mb = if matches!(l.kind, VmKind::Mbuff) { a.mb.raw() } else { vm::empty_raw() };
        let al: Vec<_> = regs.iter().filter(|r| r.0 == "allowed").collect();
        let early = match c.late_reg { 0 => al.len(), 1 => 0, _ => 1.min(al.len()) };
        for (_, st, en) in al.iter().take(early) {
            vm.register_allowed_memory(*st..*en);
        }
        if c.late_reg != 0 {
            // a first execution with only some of the ranges registered; its outcome is not the
            // subject (it may be refused), the buffers are restored afterwards
            let _ = vm.exec(Eng::Interp, mem, mb);
            a.init();
            before = a.snapshot();
            for (_, st, en) in al.iter().skip(early) {
                vm.register_allowed_memory(*st..*en);
            }
        }
        vm.exec(Eng::Interp, mem, mb)
    });
    s.count("traces_validated_against_impl", 1);
    let near = match c.t {
        Target::Prog(_) => true,
        Target::Stack(d) => (-520..=8).contains(&d),
        Target::Abs(ea) => regs.iter().any(|(_, st, en)| (ea.wrapping_sub(*st) as i64).unsigned_abs() <= 9 || (ea.wrapping_sub(*en) as i64).unsigned_abs() <= 9),
    };
    if near && first {
        s.count("distinct_nontrivial", 1);
    }
    let class = format!("{}@{}", acc_name(c), where_class(c, l, a));
    let after = a.snapshot();
    let canaries = a.pkt.canary_ok() && a.mb.canary_ok() && a.al.canary_ok();
    match r {
        Err(m) => {
            s.violation(&format!("interp/{class}/{}", panic_class(&m)), format!("panicked: {m}"), rp());
            return;
        }
        Ok(Err(e)) => {
            if e.starts_with("load") {
                s.violation(&format!("verifier/{class}/rejects-template"), e, rp());
                return;
            }
            s.outcome("err", 1);
            if exp == Expect::Inside && c.r10_shift != 0 {
                // a program that writes r10 is loadable only under a permissive verifier; an interpreter
                // that refuses to run it (or the write) refuses nothing C02 speaks about
                s.outcome("err-in-a-program-that-moves-r10(not attributed to the access)", 1);
            } else if exp == Expect::Inside {
                s.violation(&format!("interp/{class}/refused-in-bounds-access"), format!("an access of {} bytes wholly inside a region was refused: {e}", c.w), rp());
            }
            if after != before || !canaries {
                s.violation(&format!("interp/{class}/refused-access-changed-memory"), "execution returned an error but memory changed".into(), rp());
            }
        }
        Ok(Ok(v)) => {
            s.outcome("ok", 1);
            if exp == Expect::Outside {
                s.violation(&format!("interp/{class}/performed-out-of-bounds-access"), format!("an access of {} bytes not wholly inside any region was carried out (returned {v:#x})", c.w), rp());
                return;
            }
            if !canaries {
                s.violation(&format!("interp/{class}/touched-canary"), "bytes outside the buffers changed".into(), rp());
            }
            // value / effect
            match (c.acc, c.t) {
                (Acc::Ldx | Acc::LdAbs | Acc::LdInd, Target::Abs(ea)) => {
                    let want = expected_load(a, ea, c.w as usize).unwrap();
                    if v != want {
                        s.violation(&format!("interp/{class}/loaded-value-mismatch"), format!("loaded {v:#x}, memory holds {want:#x}"), rp());
                    }
                    if after != before {
                        s.violation(&format!("interp/{class}/load-changed-memory"), "a load changed memory".into(), rp());
                    }
                }
                (Acc::Ldx, Target::Stack(d)) => {
                    // bytes defined by stdw 0x5a5b5c5d (sign-extended to 64 bits, little endian)
                    let pat = (0x5a5b5c5di64 as u64).to_le_bytes();
                    let mut want = 0u64;
                    for k in 0..c.w as i64 {
                        want |= (pat[(d + k).rem_euclid(8) as usize] as u64) << (8 * k);
                    }
                    if v != want {
                        s.violation(&format!("interp/{class}/loaded-value-mismatch"), format!("loaded {v:#x} from the stack, expected {want:#x}"), rp());
                    }
                }
                (Acc::St | Acc::Stx | Acc::Xadd, Target::Abs(ea)) => {
                    let mut want = before.clone();
                    // locate ea in the snapshot
                    let mut base_off = 0usize;
                    let mut found = None;
                    for b in [&a.pkt, &a.mb, &a.al] {
                        if b.len > 0 && ea >= b.addr() && ea + c.w as u64 <= b.addr() + b.len as u64 {
                            found = Some(base_off + (ea - b.addr()) as usize);
                        }
                        base_off += b.len;
                    }
                    let o = found.unwrap();
                    let val: u64 = match c.acc {
                        Acc::St => STORE_IMM as i64 as u64,
                        Acc::Stx => STORE_REG,
                        _ => {
                            let mut old = 0u64;
                            for k in 0..c.w as usize {
                                old |= (before[o + k] as u64) << (8 * k);
                            }
                            if c.w == 4 {
                                (old as u32).wrapping_add(STORE_REG as u32) as u64
                            } else {
                                old.wrapping_add(STORE_REG)
                            }
                        }
                    };
                    for k in 0..c.w as usize {
                        want[o + k] = (val >> (8 * k)) as u8;
                    }
                    if after != want {
                        s.violation(&format!("interp/{class}/store-effect-mismatch"), "memory after the store is not 'exactly the addressed bytes replaced by the truncated value'".into(), rp());
                    }
                }
                (Acc::St | Acc::Stx | Acc::Xadd, Target::Stack(d)) => {
                    let lo = d.div_euclid(8) * 8;
                    let mut slot = (0x01020304i64 as u64).to_le_bytes();
                    let val: u64 = match c.acc {
                        Acc::St => STORE_IMM as i64 as u64,
                        Acc::Stx => STORE_REG,
                        _ => 0,
                    };
                    if c.acc != Acc::Xadd {
                        for k in 0..c.w as i64 {
                            if d + k - lo < 8 {
                                slot[(d + k - lo) as usize] = (val >> (8 * k)) as u8;
                            }
                        }
                        let want = u64::from_le_bytes(slot);
                        if v != want {
                            s.violation(&format!("interp/{class}/store-effect-mismatch"), format!("stack slot reads back {v:#x}, expected {want:#x}"), rp());
                        }
                    }
                    if after != before {
                        s.violation(&format!("interp/{class}/store-changed-other-memory"), "a stack store changed packet/metadata/allowed memory".into(), rp());
                    }
                }
                _ => {}
            }
        }
    }
}

/// C11: one case under Cranelift, in a forked child.
pub fn c11_check(s: &mut Sink, c: &MemCase, l: &Layout, a: &Arena) {
    // With an empty packet the compiled code receives a null packet pointer, so the base of
    // ldabs/ldind is not an address the harness can aim with: there is no packet data to address.
    if matches!(c.acc, Acc::LdAbs | Acc::LdInd) && (l.pkt_len == 0 || matches!(l.kind, VmKind::NoData)) {
        return;
    }
    let Some(prog) = program(c, a.pkt.addr(), if matches!(l.kind, VmKind::NoData) { 0 } else { l.pkt_len }) else { return };
    let bytes = isa::enc(&prog);
    // Cranelift knows packet, mbuff and stack only
    let regs: Vec<_> = regions(l, a).into_iter().filter(|r| r.0 != "allowed").collect();
    let exp = classify(c.t, c.w as u64, &regs);
    s.count("evaluations", 1);
    s.count("states", 1);
    s.count("transitions", 1);
    if exp == Expect::Unclear {
        return;
    }
    a.init();
    let mut before = a.snapshot();
    if c.pre_same == 5 && !first_iteration_on_ctx(c, l, &mut before) {
        return;
    }
    let rp = || case_json(c, l, Eng::Cl, a);
    let class = format!("{}@{}", acc_name(c), where_class(c, l, a));
    let compiled = catch(|| {
        let mut vm = make_vm(l.kind, &bytes, c.r10_shift != 0)?;
        if c.pre_same == 3 {
            if let Target::Abs(ea) = c.t {
                RET_PTR.store(ea.wrapping_sub(c.off as i64 as u64), std::sync::atomic::Ordering::Relaxed);
            }
            vm.register_helper(7, ret_ptr_helper)?;
        }
        // registered ranges are the interpreter's business: C11 lists packet, metadata buffer and
        // stack only, so an access into a registered range must trap like any other
        for (_, st, en) in regions(l, a).iter().filter(|r| r.0 == "allowed") {
            vm.register_allowed_memory(*st..*en);
        }
        vm.compile(Eng::Cl)?;
        Ok::<_, String>(vm)
    });
    let mut vm = match compiled {
        Ok(Ok(v)) => v,
        Ok(Err(_)) if c.r10_shift != 0 => {
            // only a permissive verifier loads a program that writes r10: C11 speaks of compiled
            // programs, not of what must compile
            s.outcome("compile-refused-a-program-that-moves-r10", 1);
            return;
        }
        Ok(Err(e)) => {
            s.violation(&format!("cranelift/{class}/compile-err"), e, rp());
            return;
        }
        Err(m) => {
            s.violation(&format!("cranelift/{class}/compile-{}", panic_class(&m)), m, rp());
            return;
        }
    };
    let mem = if matches!(l.kind, VmKind::NoData) { vm::empty_raw() } else { (a.pkt.ptr, l.pkt_len) };
    let mb = if matches!(l.kind, VmKind::Mbuff) { a.mb.raw() } else { vm::empty_raw() };
    let end = in_child(20, move || match vm.exec(Eng::Cl, mem, mb) {
        Ok(v) => v.to_le_bytes().to_vec(),
        Err(e) => format!("E{e}").into_bytes(),
    });
    s.count("traces_validated_against_impl", 1);
    let near = match c.t {
        Target::Prog(_) => true,
        Target::Stack(d) => (-520..=8).contains(&d),
        Target::Abs(ea) => regs.iter().any(|(_, st, en)| (ea.wrapping_sub(*st) as i64).unsigned_abs() <= 9 || (ea.wrapping_sub(*en) as i64).unsigned_abs() <= 9),
    };
    if near {
        s.count("distinct_nontrivial", 1);
    }
    let after = a.snapshot(); // MAP_SHARED: the child's effects are visible here
    let canaries = a.pkt.canary_ok() && a.mb.canary_ok() && a.al.canary_ok();
    match end {
        // "stops execution with a trap": ud2 (SIGILL) today; a breakpoint trap (SIGTRAP) or an abort from
        // a trap handler stop execution just as well. SIGSEGV / SIGBUS mean the access was attempted.
        ChildEnd::Signal(sig) if sig == libc::SIGILL || sig == libc::SIGTRAP || sig == libc::SIGABRT => {
            s.outcome("trap", 1);
            if exp == Expect::Inside && c.r10_shift != 0 {
                s.outcome("trap-in-a-program-that-moves-r10(not attributed to the access)", 1);
            } else if exp == Expect::Inside {
                s.violation(&format!("cranelift/{class}/trapped-on-in-bounds-access"), format!("an access of {} bytes wholly inside a region trapped", c.w), rp());
            }
            if after != before || !canaries {
                s.violation(&format!("cranelift/{class}/memory-changed-before-trap"), "the program trapped but memory changed".into(), rp());
            }
        }
        ChildEnd::Signal(sig) => {
            s.outcome("fault", 1);
            s.violation(&format!("cranelift/{class}/fault:{}", signame(sig)), format!("the access was attempted: the process died with {} instead of the trap", signame(sig)), rp());
        }
        ChildEnd::Exit(code) => s.violation(&format!("cranelift/{class}/child-exit:{code}"), "child failed".into(), rp()),
        ChildEnd::Ok(b) => {
            s.outcome("returned", 1);
            if exp == Expect::Outside {
                s.violation(&format!("cranelift/{class}/performed-out-of-bounds-access"), format!("an access of {} bytes not wholly inside packet/metadata/stack was carried out", c.w), rp());
                return;
            }
            if !canaries {
                s.violation(&format!("cranelift/{class}/touched-canary"), "bytes outside the buffers changed".into(), rp());
            }
            if b.len() != 8 {
                s.violation(&format!("cranelift/{class}/execute-error"), String::from_utf8_lossy(&b).to_string(), rp());
                return;
            }
            let v = u64::from_le_bytes(b[..8].try_into().unwrap());
            match (c.acc, c.t) {
                (Acc::Ldx | Acc::LdAbs | Acc::LdInd, Target::Abs(ea)) => {
                    let want = expected_load(a, ea, c.w as usize).unwrap();
                    if v != want {
                        s.violation(&format!("cranelift/{class}/loaded-value-mismatch"), format!("loaded {v:#x}, memory holds {want:#x}"), rp());
                    }
                }
                (Acc::St | Acc::Stx | Acc::Xadd, Target::Abs(_)) if !c.val_r10 && c.pre_same != 5 => {
                    // (with r10 as the value the stored bytes are an address: they may coincide with
                    // what is there)
                    if after == before {
                        s.violation(&format!("cranelift/{class}/store-not-performed"), "an in-bounds store left memory unchanged".into(), rp());
                    }
                }
                _ => {}
            }
        }
    }
}

fn layouts(thorough: bool, with_allowed: bool) -> Vec<Layout> {
    let mut v = vec![];
    // 12 and 20: an 8-aligned address with only 4 bytes left in the region
    let pk: &[usize] = if thorough { &[0, 1, 7, 8, 12, 16, 20, 64] } else { &[0, 7, 12, 16] };
    let mbs: &[usize] = if thorough { &[0, 8, 32] } else { &[0, 32] };
    let als: Vec<Vec<(usize, usize)>> = if !with_allowed {
        vec![vec![]]
    } else if thorough {
        vec![vec![], vec![(64, 16)], vec![(64, 16), (80, 16)], vec![(32, 8), (128, 24)], vec![(248, 8)], vec![(100, 3)], vec![(64, 8), (76, 8)], vec![(64, 8), (73, 8)], vec![(64, 12)],
             vec![(64, 32), (64, 4), (72, 4)], vec![(64, 16), (72, 16)], vec![(64, 8), (64, 16), (64, 24), (64, 32)]]
    } else {
        // adjacent ranges; a range at the very end of its buffer; two ranges 4 bytes and 1 byte apart; a 12-byte range
        vec![vec![], vec![(64, 16), (80, 16)], vec![(248, 8)], vec![(64, 8), (76, 8)], vec![(64, 8), (73, 8)], vec![(64, 12)],
             // nested ranges (a whole value plus two of its fields) and overlapping ranges
             vec![(64, 32), (64, 4), (72, 4)], vec![(64, 16), (72, 16)]]
    };
    // a packet larger than 64 KiB: offsets and immediates beyond the 15/16-bit boundaries
    v.push(Layout { kind: VmKind::Raw, pkt_len: BIG_PKT, mb_len: 0, allowed: vec![] });
    for &p in pk {
        for &m in mbs {
            for al in &als {
                let kind = if m > 0 { VmKind::Mbuff } else if p == 0 && al.is_empty() { VmKind::NoData } else { VmKind::Raw };
                v.push(Layout { kind, pkt_len: p, mb_len: m, allowed: al.clone() });
            }
        }
    }
    v
}

fn targets(l: &Layout, a: &Arena, allowed_too: bool) -> Vec<Target> {
    let mut v = vec![];
    let mut regs = regions(l, a);
    if !allowed_too {
        regs.retain(|r| r.0 != "allowed");
    }
    // also the (possibly empty) packet / mbuff base addresses themselves
    regs.push(("pkt-base", a.pkt.addr(), a.pkt.addr() + l.pkt_len as u64));
    for (_, st, en) in &regs {
        for k in -9i64..=8 {
            v.push(Target::Abs(st.wrapping_add(k as u64)));
            v.push(Target::Abs(en.wrapping_add(k as u64)));
        }
        v.push(Target::Abs(st.wrapping_add(1 << 63)));
        // 2^32 away from an in-bounds byte in both directions: an index or offset computed in 32 bits
        for k in [0u64, 1, 7] {
            v.push(Target::Abs(st.wrapping_add(1 << 32).wrapping_add(k)));
            v.push(Target::Abs(st.wrapping_sub(1 << 32).wrapping_add(k)));
            v.push(Target::Abs(st.wrapping_add(0x1_0000_0000_0000).wrapping_add(k)));
        }
        // inside a large region: around the 2^15 and 2^16 marks
        for mid in [0x8000u64, 0x10000] {
            if en - st > mid + 16 {
                for k in -9i64..=8 {
                    v.push(Target::Abs(st.wrapping_add(mid).wrapping_add(k as u64)));
                }
            }
        }
    }
    for k in [0u64, 1, 7, 8] {
        v.push(Target::Abs(k));
    }
    for k in 0..9u64 {
        v.push(Target::Abs(u64::MAX - k));
    }
    for d in -521i64..=-503 {
        v.push(Target::Stack(d));
    }
    for d in -9i64..=8 {
        v.push(Target::Stack(d));
    }
    v.push(Target::Stack(-256));
    let mut seen = std::collections::HashSet::new();
    v.retain(|t| seen.insert(format!("{t:?}")));
    v
}

fn forms() -> Vec<(Acc, u8)> {
    let mut v = vec![];
    for w in [1u8, 2, 4, 8] {
        v.push((Acc::Ldx, w));
        v.push((Acc::St, w));
        v.push((Acc::Stx, w));
        v.push((Acc::LdAbs, w));
        v.push((Acc::LdInd, w));
    }
    v.push((Acc::Xadd, 4));
    v.push((Acc::Xadd, 8));
    v
}

pub fn run(s: &mut Sink, cranelift: bool) {
    let thorough = s.tier == Tier::Thorough;
    let mut ls = layouts(thorough, !cranelift);
    if cranelift {
        // two layouts with registered ranges (which Cranelift must go on ignoring)
        ls.push(Layout { kind: VmKind::Raw, pkt_len: 16, mb_len: 0, allowed: vec![(64, 16)] });
        ls.push(Layout { kind: VmKind::Mbuff, pkt_len: 16, mb_len: 32, allowed: vec![(64, 8), (76, 8)] });
    }
    s.meta.insert("alphabet".into(), json!({
        "accesses": "ldx/st/stx/ldabs/ldind x 1,2,4,8 bytes; xadd x 4,8 (naturally aligned only - misalignment is C18's)",
        "addresses": "per region: start+k and end+k for k in -9..=8, start+2^63; 0,1,7,8; u64::MAX-k (k<9); stack: r10+d for d in -521..=-503, -9..=8, -256",
        "also": "the same access as the head of a two-iteration loop (first on a safe slot, then on the target); C02: the program image as a target, ranges registered after a first execution",
        "reached_as": "base register + every offset in O16 (12 values) and offset 0; base registers r6 and r7; ldabs immediate / ldind src+imm; C11 also: the access preceded by a 1-byte load through the same base register and offset in the same basic block",
        "layouts": ls.len(),
    }));
    s.meta.insert("bound".into(), json!("one access per program (depth 1), complete product of the alphabets"));
    s.meta.insert("rule".into(), json!("case = (access form, effective address, offset, base register, layout); non-trivial = effective address within 9 bytes of an edge of a region; all cases are distinct product elements"));
    s.meta.insert("assumptions".into(), json!(["an access that straddles two adjacent registered ranges (inside their union, inside neither) is not compared: the property does not say", "regions of at most 64 bytes; the check is translation invariant in the length"]));
    let fs = forms();
    let mut g = 0u64;
    for (li, l) in ls.iter().enumerate() {
        // every shard needs the same arena geometry only within itself: addresses are per process
        let a = Arena::new(l);
        let ts = targets(l, &a, !cranelift || !l.allowed.is_empty());
        for (fi, (acc, w)) in fs.iter().enumerate() {
            let idx = g;
            g += 1;
            if !s.take(idx) {
                continue;
            }
            if s.expired() {
                s.cut("access x address x layout");
                return;
            }
            let _ = (li, fi);
            for t in &ts {
                if *acc == Acc::Xadd {
                    let al = match t {
                        Target::Abs(ea) => ea % (*w as u64) == 0,
                        Target::Stack(d) => d.rem_euclid(*w as i64) == 0,
                        Target::Prog(k) => k % (*w as u64) == 0,
                    };
                    if !al {
                        continue;
                    }
                }
                let offs: Vec<i16> = if cranelift && !thorough { vec![0, -8, 127, -32768] } else { let mut o = O16.to_vec(); o.push(16); o };
                for off in offs {
                    for base in [6u8, 7] {
                        if base == 7 && !(thorough || off == 0) {
                            continue;
                        }
                        if l.pkt_len == BIG_PKT && !matches!(acc, Acc::Ldx | Acc::LdAbs | Acc::LdInd | Acc::Stx) {
                            continue;
                        }
                        if matches!(acc, Acc::LdAbs) && (off != 0 || base != 6) {
                            continue;
                        }
                        let c = MemCase { acc: *acc, w: *w, t: *t, off, base, pre_narrow: false, pre_store: None, r10_shift: 0, pre_same: 0, val_r10: false, late_reg: 0 };
                        if cranelift && matches!(acc, Acc::Stx | Acc::Xadd) && base == 6 {
                            c11_check(s, &MemCase { val_r10: true, ..c }, l, &a);
                        }
                        // the same instruction on a safe address first, then the address register moves
                        if base == 6 && !matches!(acc, Acc::LdAbs) && (off == 0 || off == 8 || thorough) {
                            for ps in 1..=5u8 {
                                if ps == 5 && !(matches!(l.kind, VmKind::Raw | VmKind::Mbuff) && off >= 0) {
                                    continue;
                                }
                                let c4 = MemCase { pre_same: ps, base: match ps { 3 => 0, 5 => 1, _ => 6 }, ..c };
                                if cranelift { c11_check(s, &c4, l, &a) } else { c02_check(s, &c4, l, &a) }
                            }
                        }
                        if matches!(t, Target::Stack(_)) && off == 0 && base == 6 && !matches!(acc, Acc::LdAbs | Acc::LdInd) {
                            for sh in [256, -256, 8] {
                                let c3 = MemCase { r10_shift: sh, ..c };
                                if cranelift { c11_check(s, &c3, l, &a) } else { c02_check(s, &c3, l, &a) }
                            }
                        }
                        let rp = case_json(&c, l, if cranelift { Eng::Cl } else { Eng::Interp }, &a);
                        if cranelift {
                            c11_check(s, &c, l, &a);
                            // the same access right after a 1-byte load at the same base+offset
                            // (when that byte is inside a region and the access is wider)
                            if *w > 1 && !matches!(acc, Acc::LdAbs | Acc::LdInd) && base == 6 {
                                let regs: Vec<_> = regions(l, &a).into_iter().filter(|r| r.0 != "allowed").collect();
                                if classify(*t, 1, &regs) == Expect::Inside {
                                    let c2 = MemCase { pre_narrow: true, ..c };
                                    c11_check(s, &c2, l, &a);
                                }
                            }
                        } else {
                            s.mark(idx, &format!("interp/{}@{}", acc_name(&c), where_class(&c, l, &a)), &rp);
                            c02_check(s, &c, l, &a);
                            // the program has been executed once before (some of) the ranges are registered
                            if !l.allowed.is_empty() && off == 0 && base == 6 && where_class(&c, l, &a) == "allowed" {
                                c02_check(s, &MemCase { late_reg: 1, ..c }, l, &a);
                                c02_check(s, &MemCase { late_reg: 2, ..c }, l, &a);
                            }
                            // the same access right after a narrower one of the same kind at the same
                            // address (when that byte is inside a region)
                            if *w > 1 && (base == 6 || thorough) {
                                let regs = regions(l, &a);
                                if classify(*t, 1, &regs) == Expect::Inside {
                                    match acc {
                                        Acc::Ldx | Acc::LdAbs | Acc::LdInd => c02_check(s, &MemCase { pre_narrow: true, ..c }, l, &a),
                                        _ => {
                                            c02_check(s, &MemCase { pre_narrow: true, ..c }, l, &a);
                                            a.init();
                                            if let Some(v) = first_byte(&c, &a) {
                                                c02_check(s, &MemCase { pre_store: Some(v), ..c }, l, &a);
                                            }
                                        }
                                    }
                                }
                            }
                        }
                        s.sample(&format!("{:?}", acc), || rp);
                    }
                }
            }
        }
    }
    s.done("access x address x layout");
    if cranelift && s.take(g) {
        c11_alias(s);
    }
    g += 1;
    if !cranelift && s.take(g) {
        // the program's own bytes are not part of the program's memory
        for l in ls.iter().filter(|l| l.pkt_len == 16 && l.allowed.len() <= 2) {
            let a = Arena::new(l);
            for (acc, w) in fs.iter().filter(|f| !matches!(f.0, Acc::LdAbs | Acc::LdInd)) {
                for k in [0u64, 8, 16, 24] {
                    let c = MemCase { acc: *acc, w: *w, t: Target::Prog(k), off: 0, base: 6, pre_narrow: false, pre_store: None, r10_shift: 0, pre_same: 0, val_r10: false, late_reg: 0 };
                    c02_check(s, &c, l, &a);
                    c02_check(s, &MemCase { off: 8, ..c }, l, &a);
                }
            }
        }
        s.done("accesses aimed at the program image");
    }
}

/// C11 "accesses inside the regions are performed": one stack slot reached both through r10 itself
/// and through a pointer computed from r10, in one basic block; the last load must see the last store.
fn c11_alias(s: &mut Sink) {
    for d in [-8i16, -16, -64, -256, -512] {
        for w in [1u8, 2, 4, 8] {
            for order in 0..4u8 {
                let (ldx, stx) = (opcode(Acc::Ldx, w), opcode(Acc::Stx, w));
                let mut p = vec![];
                p.extend(isa::lddw(6, 0x1111_1111_1111_1111));
                p.extend(isa::lddw(7, 0x2222_2222_2222_2222));
                p.push(isa::stdw(10, (d as i32).div_euclid(8) as i16 * 8, 0));
                p.push(isa::mov64r(2, 10));
                p.push(isa::add64i(2, d as i32));
                let direct_st = |r: u8| I::new(stx, 10, r, d, 0);
                let derived_st = |r: u8| I::new(stx, 2, r, 0, 0);
                let direct_ld = I::new(ldx, 0, 10, d, 0);
                let derived_ld = I::new(ldx, 0, 2, 0, 0);
                match order {
                    0 => p.extend([direct_st(6), derived_st(7), direct_ld]),
                    1 => p.extend([derived_st(6), direct_st(7), derived_ld]),
                    2 => p.extend([direct_st(6), direct_ld, I::new(0xbf, 8, 0, 0, 0), derived_st(7), direct_ld]),
                    _ => p.extend([derived_st(6), derived_ld, I::new(0xbf, 8, 0, 0, 0), direct_st(7), derived_ld]),
                }
                p.push(isa::EXIT);
                let bytes = isa::enc(&p);
                let want = 0x2222_2222_2222_2222u64 & if w == 8 { u64::MAX } else { (1u64 << (8 * w)) - 1 };
                let rp = json!({"kind":"none"});
                s.count("evaluations", 1);
                s.count("states", 1);
                s.count("transitions", p.len() as u64);
                s.count("traces_validated_against_impl", 1);
                s.count("distinct_nontrivial", 1);
                let compiled = catch(|| {
                    let mut vm = AnyVm::new(VmKind::NoData, Some(&bytes)).map_err(|e| format!("load: {e}"))?;
                    vm.compile(Eng::Cl)?;
                    Ok::<_, String>(vm)
                });
                let mut vm = match compiled {
                    Ok(Ok(v)) => v,
                    Ok(Err(e)) | Err(e) => {
                        s.violation("cranelift/stack-alias/compile-err", e, rp);
                        continue;
                    }
                };
                let end = in_child(20, move || match vm.exec(Eng::Cl, vm::empty_raw(), vm::empty_raw()) {
                    Ok(v) => v.to_le_bytes().to_vec(),
                    Err(e) => format!("E{e}").into_bytes(),
                });
                match end {
                    ChildEnd::Ok(b) if b.len() == 8 => {
                        let v = u64::from_le_bytes(b[..8].try_into().unwrap());
                        if v != want {
                            s.violation("cranelift/stack-alias/load-not-performed", format!("slot [r10{d}] width {w}, order {order}: the final load returned {v:#x}, the last store wrote {want:#x} ({})", isa::listing(&p).join(" | ")), rp);
                        }
                    }
                    ChildEnd::Ok(b) => s.violation("cranelift/stack-alias/execute-error", String::from_utf8_lossy(&b).to_string(), rp),
                    ChildEnd::Signal(sig) => s.violation(&format!("cranelift/stack-alias/fault:{}", signame(sig)), "in-bounds stack accesses trapped or faulted".into(), rp),
                    ChildEnd::Exit(c) => s.violation(&format!("cranelift/stack-alias/child-exit:{c}"), "child failed".into(), rp),
                }
            }
        }
    }
    s.done("one stack slot through r10 and through a pointer computed from r10 (5 slots x 4 widths x 4 orders)");
}

pub fn replay(v: &Value) -> Vec<String> {
    let lay = &v["layout"];
    let l = Layout {
        kind: vm::parse_kind(lay["vm"].as_str().unwrap()),
        pkt_len: lay["pkt"].as_u64().unwrap() as usize,
        mb_len: lay["mb"].as_u64().unwrap() as usize,
        allowed: lay["allowed"].as_array().unwrap().iter().map(|x| (x[0].as_u64().unwrap() as usize, x[1].as_u64().unwrap() as usize)).collect(),
    };
    let a = Arena::new(&l);
    let acc = match v["acc"].as_str().unwrap() {
        "Ldx" => Acc::Ldx,
        "St" => Acc::St,
        "Stx" => Acc::Stx,
        "Xadd" => Acc::Xadd,
        "LdAbs" => Acc::LdAbs,
        _ => Acc::LdInd,
    };
    let c = MemCase { acc, w: v["w"].as_u64().unwrap() as u8, t: target_from_json(v, &a), off: v["off"].as_i64().unwrap() as i16, base: v["base"].as_u64().unwrap() as u8, pre_narrow: v["pre_narrow"].as_bool().unwrap_or(false), pre_store: v["pre_store"].as_u64().map(|x| x as u8), r10_shift: v["r10_shift"].as_i64().unwrap_or(0) as i32, pre_same: v["pre_same"].as_u64().unwrap_or(0) as u8, val_r10: v["val_r10"].as_bool().unwrap_or(false), late_reg: v["late_reg"].as_u64().unwrap_or(0) as u8 };
    let mut s = Sink::new("replay", Tier::Quick, 0, 1, None, None, 3600);
    if v["eng"] == "cranelift" {
        c11_check(&mut s, &c, &l, &a);
    } else {
        c02_check(&mut s, &c, &l, &a);
    }
    let r = s.finish();
    r["violations"].as_array().unwrap().iter().map(|x| format!("{}: {}", x["sig"].as_str().unwrap(), x["detail"].as_str().unwrap())).collect()
}
