//! rbpf-mc: bounded exhaustive exploration of rbpf against reference models.
//!
//!   rbpf-mc run <PROP> --tier quick|thorough --shard i/N [--resume-after K]
//!               [--progress FILE] --out FILE [--cap SECONDS]
//!   rbpf-mc replay <FILE.json>

mod apieng;
mod asmref;
mod byteseng;
mod callseng;
mod common;
mod ctxeng;
mod dualeng;
mod helperseng;
mod isa;
mod isaeng;
mod memeng;
mod refmodel;
mod refverif;
mod schedeng;
mod text;
mod transcript;
mod vm;

use common::*;
use serde_json::Value;

fn usage() -> ! {
    eprintln!("usage: rbpf-mc run <PROP> --tier T --shard i/N [--resume-after K] [--progress F] --out F [--cap S] | rbpf-mc replay <file>");
    std::process::exit(2)
}

fn run_engine(prop: &str, s: &mut Sink) {
    match prop {
        "C01" => isaeng::run(s, vm::Eng::Interp),
        "C02" => memeng::run(s, false),
        "C11" => memeng::run(s, true),
        "C07" => callseng::run_c07(s),
        "C08" => callseng::run_c08(s),
        "C09" => ctxeng::run(s),
        "C10" => apieng::run(s),
        "C18" => schedeng::run(s),
        "C19" => helperseng::run(s),
        "C20" => dualeng::run(s),
        "C03" => {
            isaeng::run(s, vm::Eng::Jit);
            // "every verifier-accepted program" includes the call-graph programs of C07
            callseng::run_c07_jit(s, 10_000_000);
        }
        "C04" => isaeng::run(s, vm::Eng::Cl),
        "C05" => byteseng::run(s, byteseng::Mode::C05),
        "C06" => byteseng::run(s, byteseng::Mode::C06),
        "C12" => byteseng::run(s, byteseng::Mode::C12),
        "C13" => text::run_c13(s),
        "C14" => text::run_c14(s),
        "C15" => text::run_c15(s),
        "C16" => text::run_c16(s),
        "C17" => text::run_c17(s),
        _ => {
            eprintln!("unknown property {prop}");
            std::process::exit(2)
        }
    }
}

pub fn replay_value(rp: &Value) -> Vec<String> {
    match rp["kind"].as_str().unwrap_or("") {
        "isa-l1" => isaeng::replay_l1(rp),
        "isa-prog" => isaeng::replay_prog(rp),
        "isa-l4" => isaeng::replay_l4(rp),
        "isa-l6" => isaeng::replay_l5(rp),
        "mem" => memeng::replay(rp),
        "ctx" => ctxeng::replay(rp),
        "api" => apieng::replay(rp),
        "helper-call" => callseng::replay_c08(rp),
        "local-call" => callseng::replay_c07(rp),
        "helper" => helperseng::replay(rp),
        "dual" => dualeng::replay(rp),
        "sched" | "xadd-seq" => schedeng::replay(rp),
        "verify" => byteseng::replay_verify(rp),
        "interp-total" => byteseng::replay_interp_total(rp),
        "compile-total" => byteseng::replay_compile_total(rp),
        "compile-sizing" => byteseng::replay_compile_sizing(rp),
        "asm" => text::replay_asm(rp),
        "asm-after" => text::replay_asm_after(rp),
        "asm-lenient" => text::replay_asm_lenient(rp),
        "asm-total" => text::replay_asm_total(rp),
        "disasm" => text::replay_disasm(rp),
        "disasm-print" => text::replay_disasm_print(rp),
        "roundtrip" => text::replay_roundtrip(rp),
        k if k.starts_with("c17-") => text::replay_c17(rp),
        k => vec![format!("unknown replay kind {k:?}")],
    }
}

fn main() {
    let args: Vec<String> = std::env::args().collect();
    if args.len() < 2 {
        usage();
    }
    if std::env::var("VERIF_LOUD").is_err() {
        quiet_panics();
    }
    match args[1].as_str() {
        "run" => {
            if args.len() < 3 {
                usage();
            }
            let prop = args[2].clone();
            let mut tier = Tier::Quick;
            let (mut shard, mut nshards) = (0u64, 1u64);
            let mut resume: Option<u64> = None;
            let mut progress: Option<String> = None;
            let mut out: Option<String> = None;
            let mut cap = 0u64;
            let mut i = 3;
            while i < args.len() {
                let a = args[i].as_str();
                let v = args.get(i + 1).cloned().unwrap_or_default();
                match a {
                    "--tier" => tier = if v == "thorough" { Tier::Thorough } else { Tier::Quick },
                    "--shard" => {
                        let (x, y) = v.split_once('/').unwrap_or_else(|| usage());
                        shard = x.parse().unwrap();
                        nshards = y.parse().unwrap();
                    }
                    "--resume-after" => resume = Some(v.parse().unwrap()),
                    "--progress" => progress = Some(v),
                    "--out" => out = Some(v),
                    "--cap" => cap = v.parse().unwrap(),
                    _ => usage(),
                }
                i += 2;
            }
            if cap == 0 {
                cap = tier.pick(240, 4500);
            }
            let mut s = Sink::new(&prop, tier, shard, nshards, resume, progress.as_deref(), cap);
            s.seed = std::env::var("VERIF_SEED").ok().and_then(|x| x.parse().ok()).unwrap_or(0);
            run_engine(&prop, &mut s);
            let v = s.finish();
            let txt = serde_json::to_string(&v).unwrap();
            match out {
                Some(p) => std::fs::write(p, txt).unwrap(),
                None => println!("{txt}"),
            }
        }
        "replay" => {
            if args.len() < 3 {
                usage();
            }
            let txt = std::fs::read_to_string(&args[2]).expect("cannot read replay file");
            let v: Value = serde_json::from_str(&txt).expect("bad json");
            let rp = if v.get("replay").is_some() { v["replay"].clone() } else { v.clone() };
            let out = replay_value(&rp);
            if out.is_empty() {
                println!("REPLAY-OK no violation reproduced");
                std::process::exit(0);
            }
            for l in &out {
                println!("REPLAY-VIOLATION {l}");
            }
            std::process::exit(1);
        }
        _ => usage(),
    }
}
