//! Engine `bytes`: small-scope exploration of byte strings.
//!   C06  default verifier == reference predicate (mc/src/refverif.rs)
//!   C05  every accepted string is interpreted without a panic (budgeted)
//!   C12  every accepted string is compiled by both compilers without a panic, repeatably

use crate::common::*;
use crate::isa::{self, I};
use crate::isaeng;
use crate::refmodel::{End, Val};
use crate::refverif;
use crate::vm::{self, AnyVm, Buf, Eng, VmKind};
use serde_json::{json, Value};

#[derive(Clone, Copy, PartialEq, Eq, Debug)]
pub enum Mode {
    C06,
    C05,
    C12,
}

pub fn context_alphabet() -> Vec<(&'static str, I)> {
    vec![
        ("exit", isa::EXIT),
        ("ja+0", isa::ja(0)),
        ("mov64 r0,1", isa::mov64i(0, 1)),
        ("lddw-half", I::new(0x18, 1, 0, 0, 7)),
        ("zero-slot", I::new(0, 0, 0, 0, 0)),
        ("call 1", isa::call_helper(1)),
        ("jeq r0,0,+0", I::new(0x15, 0, 0, 0, 0)),
        ("stxdw [r10-8],r1", I::new(0x7b, 10, 1, -8, 0)),
        // a zero-opcode slot whose other fields are set: still the second half of a wide load when it
        // follows one, still not an instruction otherwise
        ("zero-slot-with-fields", I::new(0, 3, 4, 7, 9)),
    ]
}

const FOCUS_DST: [u8; 5] = [0, 9, 10, 11, 15];
const FOCUS_SRC: [u8; 6] = [0, 1, 2, 10, 11, 15];

fn focus_offs(n: usize) -> Vec<i16> {
    let mut v: Vec<i16> = ((-(n as i16) - 1)..=(n as i16 + 1)).collect();
    v.extend([32767, -32768, -32767]);
    v
}
fn focus_imms(n: usize) -> Vec<i32> {
    let mut v = vec![0, 1, 2, -1, -2, 16, 32, 64, 8, n as i32, -(n as i32), -(n as i32) - 1, i32::MIN, i32::MAX];
    v.sort();
    v.dedup();
    v
}

/// Opcodes the Cranelift part of C12 uses (one per translation arm) - the full 256 for the rest.
fn cl_focus_opcodes() -> Vec<u8> {
    vec![0x00, 0x05, 0x07, 0x0c, 0x15, 0x16, 0x18, 0x1d, 0x20, 0x28, 0x30, 0x38, 0x34, 0x3c, 0x37, 0x3f, 0x40, 0x48, 0x61, 0x62, 0x63, 0x69, 0x71, 0x79, 0x7a, 0x7b, 0x84, 0x85, 0x87, 0x8d, 0x94, 0x95, 0x9c, 0x9f, 0xb7, 0xbf, 0xc3, 0xdb, 0xd4, 0xdc, 0xe5, 0xff]
}

struct Helpers;
fn h1(a: u64, b: u64, c: u64, d: u64, e: u64) -> u64 {
    isaeng::gather_helper(a, b, c, d, e)
}
fn h_nested(a: u64, _b: u64, _c: u64, _d: u64, _e: u64) -> u64 {
    // the instruction budget of the outer run is a thread-local counter: keep it
    crate::callseng::nested_run(1);
    a.wrapping_add(1)
}
fn h2(a: u64, _b: u64, _c: u64, _d: u64, _e: u64) -> u64 {
    a.wrapping_add(1)
}

fn first_failed_clause(bytes: &[u8]) -> &'static str {
    refverif::well_formed(bytes).err().unwrap_or("well-formed")
}

fn focus_class(bytes: &[u8], pos: usize) -> String {
    if bytes.len() >= (pos + 1) * 8 {
        let i = I::decode(&bytes[pos * 8..pos * 8 + 8]);
        isa::mnemonic(&i).unwrap_or_else(|| format!("op{:#04x}", i.opc))
    } else {
        "short".into()
    }
}

/// C06 check of one string.
fn c06_check(s: &mut Sink, bytes: &[u8], pos: usize, also_set_program: bool) -> bool {
    let want = refverif::well_formed(bytes);
    let got = catch(|| rbpf::EbpfVmMbuff::new(Some(bytes)).is_ok());
    let rp = || json!({"kind":"verify","prog":hex(bytes),"focus":pos});
    let accepted = match got {
        Err(m) => {
            s.violation(&format!("verifier/{}/{}", first_failed_clause(bytes), panic_class(&m)), format!("the verifier panicked: {m}"), rp());
            false
        }
        Ok(g) => {
            match (&want, g) {
                (Ok(()), true) => s.outcome("accepted", 1),
                (Err(_), false) => s.outcome("rejected", 1),
                (Err(c), true) => s.violation(&format!("verifier/{c}/accepts-ill-formed"), format!("accepted although: {c} ({})", isa::listing(&isa::dec(bytes)).join(" | ")), rp()),
                (Ok(()), false) => s.violation(&format!("verifier/{}/rejects-well-formed", focus_class(bytes, pos)), format!("rejected a well-formed program ({})", isa::listing(&isa::dec(bytes)).join(" | ")), rp()),
            }
            g
        }
    };
    if also_set_program {
        let g2 = catch(|| {
            let mut vm = rbpf::EbpfVmRaw::new(None).unwrap();
            vm.set_program(bytes).is_ok()
        });
        match g2 {
            Ok(x) if x == accepted => {}
            Ok(x) => s.violation("verifier/set_program/disagrees-with-new", format!("new() accepted = {accepted}, set_program accepted = {x}"), rp()),
            Err(m) => s.violation(&format!("verifier/set_program/{}", panic_class(&m)), format!("set_program panicked: {m}"), rp()),
        }
    }
    accepted
}

struct Bufs {
    pkt: Buf,
    mb: Buf,
    /// a one-byte buffer, allocated after the packet (mappings grow downwards: it lies below it)
    small: Buf,
}

fn c05_calc(_prog: &[u8], _pc: usize, _data: &mut dyn std::any::Any) -> u16 {
    64
}

/// C05 check of one accepted string: three interpretations with a budget.
fn c05_check(s: &mut Sink, bytes: &[u8], pos: usize, bufs: &Bufs) {
    let prog = isa::dec(bytes);
    // the last configuration registers a stack-usage calculator and a one-byte range of allowed
    // memory that lies below the packet (so that `address - range start` is meaningful for every
    // access the program makes through r1)
    // configuration 4: after loading, a set_program with an ill-formed program fails (the VM must go
    // on running the accepted program); configuration 5: the VM held another program before
    static ILL: [u8; 16] = [0xb7, 0, 0, 0, 0, 0, 0, 0, 0x06, 0, 0, 0, 0, 0, 0, 0];
    // configuration 6: helper 1 is a function that itself runs an eBPF program under the interpreter
    // (a helper may re-enter the library); only for strings that contain a helper call
    let has_call = prog.iter().any(|i| i.opc == 0x85 && i.src == 0);
    let configs: [(VmKind, usize); 9] = [(VmKind::NoData, 0), (VmKind::Raw, 1), (VmKind::Mbuff, 2), (VmKind::Raw, 3), (VmKind::Fixed(0x18, 0x08), 1), (VmKind::Fixed(0x0, 0x8), 0), (VmKind::Raw, 4), (VmKind::NoData, 5), (VmKind::NoData, 6)];
    for (kind, hs) in configs {
        if hs == 6 && !has_call {
            continue;
        }
        let r = catch(|| {
            let _reload = isaeng::ReloadGuard::new(if hs == 5 { 3 } else { 0 });
            let mut vm = AnyVm::new(kind, Some(bytes)).map_err(|e| format!("load: {e}"))?;
            if hs == 4 && vm.set_program(&ILL, (0, 0)).is_ok() {
                return Err("setup: an ill-formed program was accepted by set_program".to_string());
            }
            if hs == 3 {
                vm.set_calc(c05_calc, Box::new(()))?;
                let lo = bufs.small.addr().min(bufs.pkt.addr());
                if lo == bufs.small.addr() {
                    vm.register_allowed_memory(lo..lo + 1);
                }
            }
            if (1..=4).contains(&hs) {
                vm.register_helper(1, h1)?;
            }
            if hs == 6 {
                vm.register_helper(1, h_nested)?;
            }
            if (2..=3).contains(&hs) {
                vm.register_helper(0x7fff_ffff, h2)?;
                vm.register_helper(0xffff_ffff, h2)?;
            }
            bufs.pkt.fill(&[0x11u8; 16]);
            bufs.mb.fill(&[0x22u8; 32]);
            rbpf::verif_hooks::set_insn_budget(Some(300));
            let mem = if kind == VmKind::NoData { vm::empty_raw() } else { bufs.pkt.raw() };
            let mb = if kind == VmKind::Mbuff { bufs.mb.raw() } else { vm::empty_raw() };
            let out = vm.exec(Eng::Interp, mem, mb);
            rbpf::verif_hooks::set_insn_budget(None);
            Ok::<_, String>(out)
        });
        rbpf::verif_hooks::set_insn_budget(None);
        s.count("traces_validated_against_impl", 1);
        s.count("transitions", 1);
        match r {
            Ok(Ok(Ok(_))) => s.outcome("value", 1),
            Ok(Ok(Err(e))) => s.outcome(if e.contains("[verif] instruction budget") { "budget" } else { "error" }, 1),
            Ok(Err(e)) => s.outcome(if e.starts_with("load") { "load-error" } else { "setup-error" }, 1),
            Err(m) => {
                // classify by what the reference machine says about the program
                let mut mm = isaeng::model_for(&prog, kind, &[0x11u8; 16], &[0x22u8; 32], true);
                mm.max_steps = 300;
                let class = match mm.run() {
                    End::Malformed(w) => w.replace(' ', "-"),
                    _ => focus_class(bytes, pos),
                };
                s.violation(&format!("interp/{class}/{}", panic_class(&m)), format!("interpreting a verifier-accepted program panicked: {m} ({})", isa::listing(&prog).join(" | ")), json!({"kind":"interp-total","prog":hex(bytes),"vm":vm::kind_name(kind),"helpers":hs,"focus":pos}));
            }
        }
    }
}

/// C12 check of one accepted string on one compiler.
fn c12_check(s: &mut Sink, bytes: &[u8], pos: usize, eng: Eng, run_if_defined: bool) {
    let prog = isa::dec(bytes);
    for hs in [0usize, 1] {
        let compile = || {
            catch(|| {
                let mut vm = AnyVm::new(VmKind::NoData, Some(bytes)).map_err(|e| format!("load: {e}"))?;
                if hs >= 1 {
                    vm.register_helper(1, h1)?;
                }
                vm.compile(eng).map(|_| vm)
            })
        };
        let a = compile();
        let b = compile();
        s.count("traces_validated_against_impl", 1);
        s.count("transitions", 2);
        let rp = || json!({"kind":"compile-total","prog":hex(bytes),"eng":eng.name(),"helpers":hs,"focus":pos});
        let class = || {
            let mut mm = isaeng::model_for(&prog, VmKind::NoData, &[], &[], true);
            mm.max_steps = 300;
            match mm.run() {
                End::Malformed(w) => w.replace(' ', "-"),
                _ => focus_class(bytes, pos),
            }
        };
        match (&a, &b) {
            (Err(m), _) | (_, Err(m)) => {
                s.violation(&format!("{}/{}/compile-{}", eng.name(), class(), panic_class(m)), format!("compiling a verifier-accepted program panicked: {m} ({})", isa::listing(&prog).join(" | ")), rp());
                continue;
            }
            (Ok(Ok(_)), Ok(Err(e))) | (Ok(Err(e)), Ok(Ok(_))) => {
                s.violation(&format!("{}/{}/compile-not-repeatable", eng.name(), class()), format!("one compilation succeeded, the other returned {e}"), rp());
                continue;
            }
            (Ok(Err(_)), Ok(Err(_))) => {
                s.outcome("compile-err", 1);
                // a refused compilation must leave nothing behind: the smallest programs compile right
                // after it, on the same thread
                for probe in [&[isa::EXIT][..], &[isa::mov64i(0, 1), isa::EXIT][..]] {
                    let pb = isa::enc(probe);
                    let r = catch(|| {
                        let mut vm = AnyVm::new_plain(VmKind::NoData, Some(&pb)).map_err(|e| format!("load: {e}"))?;
                        vm.compile(eng)
                    });
                    if !matches!(r, Ok(Ok(()))) {
                        s.violation(&format!("{}/{}/compile-after-a-refused-compilation", eng.name(), class()), format!("right after the compilation of this program was refused, compiling `{}` gave {:?}", isa::listing(probe).join(" | "), r), rp());
                        break;
                    }
                }
                continue;
            }
            (Ok(Ok(_)), Ok(Ok(_))) => s.outcome("compile-ok", 1),
        }
        if !run_if_defined {
            continue;
        }
        // repeatability of the result on a defined input (only programs the reference machine
        // proves terminating and in-bounds are executed)
        let mut mm = isaeng::model_for(&prog, VmKind::NoData, &[], &[], hs >= 1);
        mm.max_steps = 300;
        if let End::Ret(Val::Int(_)) = mm.run() {
            if prog.iter().any(|i| i.opc == 0x85 && i.src == 1) {
                continue; // local calls: the JIT's frame handling is C07's subject
            }
            let (Ok(Ok(mut va)), Ok(Ok(mut vb))) = (a, b) else { continue };
            let end = in_child(20, move || {
                let x = va.exec(eng, vm::empty_raw(), vm::empty_raw());
                let y = vb.exec(eng, vm::empty_raw(), vm::empty_raw());
                format!("{x:?}|{y:?}|{}", x == y).into_bytes()
            });
            match end {
                ChildEnd::Ok(b) => {
                    let t = String::from_utf8_lossy(&b).to_string();
                    if !t.ends_with("true") {
                        s.violation(&format!("{}/{}/result-not-repeatable", eng.name(), class()), format!("two compilations of the same program gave different results: {t}"), rp());
                    }
                    s.outcome("ran-both", 1);
                }
                ChildEnd::Signal(sig) => s.violation(&format!("{}/{}/crash:{}", eng.name(), class(), signame(sig)), format!("compiled program died with {} on a run the reference machine proves defined and in bounds ({})", signame(sig), isa::listing(&prog).join(" | ")), rp()),
                ChildEnd::Exit(c) => s.violation(&format!("{}/{}/child-exit:{c}", eng.name(), class()), "child failed".into(), rp()),
            }
        }
    }
}

/// Enumerate the string space: lengths n <= nmax, every focus position, context combos.
fn enumerate(s: &mut Sink, mode: Mode, g: &mut u64) {
    let thorough = s.tier == Tier::Thorough;
    let nmax = match (mode, thorough) {
        (Mode::C06, false) => 3,
        (Mode::C06, true) => 4,
        (Mode::C05, false) => 3,
        (Mode::C05, true) => 4,
        (Mode::C12, false) => 3,
        (Mode::C12, true) => 4,
    };
    let ctx = context_alphabet();
    let bufs = Bufs { pkt: Buf::new(16, 0), mb: Buf::new(32, 0), small: Buf::new(1, 0) };
    let cl_ops = cl_focus_opcodes();
    s.meta.insert("alphabet".into(), json!({
        "focus": "all 256 opcodes x dst {0,9,10,11,15} x src {0,1,2,10,11,15} x off {-n-1..n+1, 32767, -32767, -32768} x imm {0,1,2,-1,-2,8,16,32,64,n,-n,-n-1,i32::MIN,i32::MAX}",
        "context": ctx.iter().map(|c| c.0).collect::<Vec<_>>(),
        "context_note": "the store is in the context so that per-instruction verifier state that must be reset (is-a-store flag) is exercised",
        "register_bytes": "every opcode x all 256 register bytes in a fixed context",
        "lengths": "every length 0..=33 bytes; 8n for n <= 5; 8*10^6 and 8*(10^6+1)",
        "cranelift_focus_opcodes": if mode == Mode::C12 { json!(cl_ops.len()) } else { json!(null) },
    }));
    s.meta.insert("bound".into(), json!({"max_instructions": nmax, "tier": s.tier.name()}));
    for n in 1..=nmax {
        let offs = focus_offs(n);
        let imms = focus_imms(n);
        let nctx = ctx.len().pow((n - 1) as u32);
        for p in 0..n {
            for combo in 0..nctx {
                let idx = *g;
                *g += 1;
                if !s.take(idx) {
                    continue;
                }
                if s.expired() {
                    s.cut(&format!("strings of {n} instructions"));
                    return;
                }
                s.mark_idx(idx);
                // fill context
                let mut prog = vec![isa::EXIT; n];
                let mut c = combo;
                for q in 0..n {
                    if q != p {
                        prog[q] = ctx[c % ctx.len()].1;
                        c /= ctx.len();
                    }
                }
                let mut bytes = isa::enc(&prog);
                let mut nn = 0u64;
                let mut acc = 0u64;
                for opc in 0..=255u8 {
                    for dst in FOCUS_DST {
                        for src in FOCUS_SRC {
                            for off in &offs {
                                for imm in &imms {
                                    let f = I::new(opc, dst, src, *off, *imm);
                                    bytes[p * 8..p * 8 + 8].copy_from_slice(&f.bytes());
                                    nn += 1;
                                    match mode {
                                        Mode::C06 => {
                                            if c06_check(s, &bytes, p, n <= 2) {
                                                acc += 1;
                                            }
                                        }
                                        Mode::C05 => {
                                            if rbpf::EbpfVmMbuff::new(Some(&bytes)).is_ok() {
                                                acc += 1;
                                                c05_check(s, &bytes, p, &bufs);
                                            }
                                        }
                                        Mode::C12 => {
                                            if rbpf::EbpfVmMbuff::new(Some(&bytes)).is_ok() {
                                                acc += 1;
                                                c12_check(s, &bytes, p, Eng::Jit, n <= 2 || (thorough && n <= 3));
                                                let cl_sub = if thorough && n <= 3 {
                                                    dst != 15 && src != 15 && *imm != 2 && *imm != -2 && *imm != 8
                                                } else {
                                                    matches!(dst, 0 | 10) && matches!(src, 0 | 1 | 10) && matches!(*imm, 0 | -1 | 16 | i32::MIN)
                                                };
                                                if cl_ops.contains(&opc) && (n <= 2 || cl_sub) {
                                                    c12_check(s, &bytes, p, Eng::Cl, n <= 2);
                                                }
                                            }
                                        }
                                    }
                                }
                            }
                        }
                    }
                }
                s.count("evaluations", nn);
                s.count("states", nn);
                if mode == Mode::C06 {
                    s.count("transitions", nn);
                    s.count("traces_validated_against_impl", nn);
                }
                s.count("accepted_by_verifier", acc);
                // non-trivial: accepted strings (each is a distinct product element)
                s.count("distinct_nontrivial", acc);
                if acc > 0 {
                    s.sample(&format!("n{n}-p{p}"), || json!({"context": prog.iter().enumerate().map(|(q, i)| if q == p { "<focus>".to_string() } else { isa::listing(&[*i]).join("") }).collect::<Vec<_>>(), "focus_instructions": nn, "accepted": acc}));
                }
            }
        }
        s.done(&format!("strings of {n} instructions"));
    }
}

/// Every opcode x every register byte in a fixed context, and the length classes.
fn enumerate_special(s: &mut Sink, mode: Mode, g: &mut u64) {
    let bufs = Bufs { pkt: Buf::new(16, 0), mb: Buf::new(32, 0), small: Buf::new(1, 0) };
    for opc in 0..=255u8 {
        let idx = *g;
        *g += 1;
        if !s.take(idx) {
            continue;
        }
        let mut nn = 0;
        for reg in 0..=255u8 {
            for (off, imm) in [(0i16, 0i32), (1, 16), (0, 1), (-2, 64)] {
                for ctxn in 0..2 {
                    let f = I::new(opc, reg & 15, reg >> 4, off, imm);
                    let prog: Vec<I> = if ctxn == 0 { vec![f, isa::EXIT] } else { vec![isa::mov64i(0, 0), f, I::new(0, 0, 0, 0, 0), isa::EXIT] };
                    let bytes = isa::enc(&prog);
                    let p = ctxn;
                    nn += 1;
                    match mode {
                        Mode::C06 => {
                            c06_check(s, &bytes, p, true);
                        }
                        Mode::C05 => {
                            if rbpf::EbpfVmMbuff::new(Some(&bytes)).is_ok() {
                                c05_check(s, &bytes, p, &bufs);
                            }
                        }
                        Mode::C12 => {
                            if rbpf::EbpfVmMbuff::new(Some(&bytes)).is_ok() {
                                c12_check(s, &bytes, p, Eng::Jit, true);
                                c12_check(s, &bytes, p, Eng::Cl, true);
                            }
                        }
                    }
                }
            }
        }
        s.count("evaluations", nn);
        s.count("states", nn);
    }
    s.done("every opcode x all 256 register bytes");
    // every opcode x a dense immediate set: -1100..=1100, and w + 2^j, w - 2^j for the widths and
    // small values w (an immediate test that looks at part of the field only)
    let mut dense: Vec<i32> = (-1100..=1100).collect();
    for j in 8..32u32 {
        for w in [0i32, 1, 16, 32, 64, 255] {
            dense.push(w.wrapping_add(1i32.wrapping_shl(j)));
            dense.push(w.wrapping_sub(1i32.wrapping_shl(j)));
        }
    }
    dense.sort();
    dense.dedup();
    for opc in 0..=255u8 {
        let idx = *g;
        *g += 1;
        if !s.take(idx) {
            continue;
        }
        let mut nn = 0;
        for imm in &dense {
            for (dst, src, off) in [(1u8, 2u8, 0i16), (0, 0, 0), (0, 1, 0)] {
                let f = I::new(opc, dst, src, off, *imm);
                let prog: Vec<I> = vec![isa::mov64i(0, 0), isa::mov64i(1, 0), f, I::new(0, 0, 0, 0, 0), isa::EXIT];
                let prog: Vec<I> = if opc == 0x18 { prog } else { vec![isa::mov64i(0, 0), isa::mov64i(1, 0), f, isa::EXIT] };
                let bytes = isa::enc(&prog);
                nn += 1;
                match mode {
                    Mode::C06 => {
                        c06_check(s, &bytes, 2, false);
                    }
                    Mode::C05 => {
                        if rbpf::EbpfVmMbuff::new(Some(&bytes)).is_ok() {
                            c05_check(s, &bytes, 2, &bufs);
                        }
                    }
                    Mode::C12 => {
                        if rbpf::EbpfVmMbuff::new(Some(&bytes)).is_ok() && (imm.unsigned_abs() <= 300 || imm % 7 == 0) {
                            c12_check(s, &bytes, 2, Eng::Jit, false);
                        }
                    }
                }
            }
        }
        s.count("evaluations", nn);
        s.count("states", nn);
        if mode == Mode::C06 {
            s.count("transitions", nn);
            s.count("traces_validated_against_impl", nn);
        }
    }
    s.done("every opcode x dense immediates (-1100..=1100, w +- 2^j)");
    // every opcode x dense offsets: -40..=40 and +-2^j (an offset field the instruction does not
    // use must not matter; one it uses as a displacement decides where the jump lands)
    let mut doffs: Vec<i16> = (-40..=40).collect();
    for j in 6..15u32 {
        doffs.push(1i16 << j);
        doffs.push(-(1i16 << j));
    }
    for opc in 0..=255u8 {
        let idx = *g;
        *g += 1;
        if !s.take(idx) {
            continue;
        }
        let mut nn = 0;
        for off in &doffs {
            for (dst, src, imm) in [(1u8, 2u8, 16i32), (0, 1, 0)] {
                let f = I::new(opc, dst, src, *off, imm);
                let mut prog: Vec<I> = vec![isa::mov64i(0, 0), isa::mov64i(1, 0), isa::mov64i(2, 0), f];
                if opc == 0x18 {
                    prog.push(I::new(0, 0, 0, 0, 0));
                }
                prog.extend([isa::mov64i(0, 1), isa::mov64i(0, 2), isa::EXIT]);
                let bytes = isa::enc(&prog);
                nn += 1;
                match mode {
                    Mode::C06 => {
                        c06_check(s, &bytes, 3, false);
                    }
                    Mode::C05 => {
                        if rbpf::EbpfVmMbuff::new(Some(&bytes)).is_ok() {
                            c05_check(s, &bytes, 3, &bufs);
                        }
                    }
                    Mode::C12 => {
                        if rbpf::EbpfVmMbuff::new(Some(&bytes)).is_ok() {
                            c12_check(s, &bytes, 3, Eng::Jit, false);
                        }
                    }
                }
            }
        }
        s.count("evaluations", nn);
        s.count("states", nn);
        if mode == Mode::C06 {
            s.count("transitions", nn);
            s.count("traces_validated_against_impl", nn);
        }
    }
    s.done("every opcode x dense offsets (-40..=40, +-2^j)");
    if mode == Mode::C06 {
        let idx = *g;
        *g += 1;
        if s.take(idx) {
            let mut nn = 0;
            for len in 0..=33usize {
                // contents: zeros, and exit instructions cut at the length
                for fill in 0..2 {
                    let mut b = vec![0u8; len];
                    if fill == 1 {
                        for k in 0..len {
                            b[k] = isa::EXIT.bytes()[k % 8];
                        }
                    }
                    c06_check(s, &b, 0, true);
                    nn += 1;
                }
            }
            for n in [1usize, 2, 3, 4, 5, 999_999, 1_000_000, 1_000_001] {
                let mut prog = vec![isa::mov64i(0, 0); n];
                prog[n - 1] = isa::EXIT;
                c06_check(s, &isa::enc(&prog), n - 1, true);
                // and with a final ja that targets the first instruction
                if n >= 2 && n <= 32768 {
                    prog[n - 1] = isa::ja(-(n as i16));
                    c06_check(s, &isa::enc(&prog), n - 1, true);
                }
                nn += 2;
            }
            // beyond the limit of 1,000,000 instruction slots, with wide loads: counting instructions
            // instead of slots must not let a longer program in
            for (slots, wide) in [(1_000_001usize, 1usize), (1_000_002, 2), (1_000_002, 1), (1_400_000, 400_000), (2_000_000, 1_000_000 - 1), (1_000_000, 1), (1_000_000, 499_999)] {
                let mut prog: Vec<I> = Vec::with_capacity(slots);
                for k in 0..wide {
                    prog.extend(isa::lddw(1, k as u64));
                }
                while prog.len() < slots - 1 {
                    prog.push(isa::mov64i(0, 0));
                }
                prog.push(isa::EXIT);
                c06_check(s, &isa::enc(&prog), 0, true);
                nn += 1;
            }
            s.count("evaluations", nn);
            s.count("states", nn);
            s.done("length classes");
        }
    }
}

/// Programs built by repeating or nesting one construct k times: whatever a rule counts, it must
/// not confuse occurrences with nesting or overflow a fixed table.
fn family_programs(thorough: bool) -> Vec<(String, Vec<I>)> {
    let mut v: Vec<(String, Vec<I>)> = vec![];
    let kmax = if thorough { 300 } else { 40 };
    let units: Vec<(&str, Vec<I>)> = vec![
        ("call-helper", vec![isa::call_helper(1)]),
        ("ja+0", vec![isa::ja(0)]),
        ("jeq+0", vec![I::new(0x15, 0, 0, 0, 0)]),
        ("lddw", isa::lddw(3, 0x1122334455667788).to_vec()),
        ("stxdw", vec![I::new(0x7b, 10, 1, -8, 0)]),
        ("ldxdw-stack", vec![I::new(0x7b, 10, 1, -8, 0), I::new(0x79, 2, 10, -8, 0)]),
        ("xadddw", vec![I::new(0x7b, 10, 1, -8, 0), I::new(0xdb, 10, 1, -8, 0)]),
        ("div64-imm", vec![I::new(0x37, 0, 0, 0, 3)]),
        ("be16", vec![I::new(0xdc, 0, 0, 0, 16)]),
        ("neg64", vec![I::new(0x87, 0, 0, 0, 0)]),
    ];
    for k in 1..=kmax {
        for (name, u) in &units {
            let mut p = vec![isa::mov64i(0, 0), isa::mov64i(1, 0)];
            for _ in 0..k {
                p.extend(u.iter());
            }
            p.push(isa::EXIT);
            v.push((format!("{k}x{name}"), p));
        }
        // k sequential local calls to one shared callee (run-time depth 1)
        let mut p = vec![isa::mov64i(0, 0)];
        for i in 0..k {
            p.push(isa::call_local((k - i) as i32)); // over the remaining calls and the exit
        }
        p.push(isa::EXIT);
        p.push(isa::add64i(0, 1));
        p.push(isa::EXIT);
        v.push((format!("{k}x-local-call-sites"), p));
    }
    // after a store: every way of writing r10, then a local call and returns (accepted only by a
    // verifier that forgets to reset per-instruction state; must then still not crash)
    for (wn, w) in [("mov64-imm", vec![isa::mov64i(10, 64)]), ("mov64-imm-neg", vec![isa::mov64i(10, -1)]), ("mov32-imm", vec![I::new(0xb4, 10, 0, 0, 7)]),
                    ("add64-imm", vec![isa::add64i(10, 1 << 30)]), ("lddw", isa::lddw(10, u64::MAX).to_vec()), ("ldxdw", vec![I::new(0x79, 10, 10, -8, 0)]),
                    ("neg64", vec![I::new(0x87, 10, 0, 0, 0)]), ("mov64-reg", vec![isa::mov64r(10, 1)])] {
        for st in [I::new(0x7b, 10, 1, -8, 0), I::new(0x7a, 10, 0, -8, 5), I::new(0xdb, 10, 1, -8, 0)] {
            let mut p = vec![isa::mov64i(1, 0), st];
            p.extend(w.iter());
            p.push(isa::call_local(1));
            p.push(isa::EXIT);
            p.extend(w.iter());
            p.push(isa::EXIT);
            v.push((format!("store-then-r10-write-{wn}"), p));
        }
    }
    // chains: f_i calls f_{i+1}; the innermost returns (depth d), forward and backward layout
    for d in 1..=12usize {
        let mut p = vec![isa::mov64i(0, 0), isa::call_local(1), isa::EXIT];
        for _ in 1..d {
            p.push(isa::call_local(1));
            p.push(isa::EXIT);
        }
        p.push(isa::add64i(0, 1));
        p.push(isa::EXIT);
        v.push((format!("chain-depth-{d}"), p));
        // bounded recursion: f decrements r6 and calls itself until 0
        let p = vec![isa::mov64i(0, 0), isa::mov64i(6, d as i32), isa::call_local(1), isa::EXIT,
                     I::new(0x15, 6, 0, 2, 0), isa::add64i(6, -1), isa::call_local(-3), isa::add64i(0, 1), isa::EXIT];
        v.push((format!("recursion-depth-{d}"), p));
    }
    v
}

fn families(s: &mut Sink, mode: Mode, g: &mut u64) {
    let thorough = s.tier == Tier::Thorough;
    let bufs = Bufs { pkt: Buf::new(16, 0), mb: Buf::new(32, 0), small: Buf::new(1, 0) };
    let fams = family_programs(thorough);
    for chunk in fams.chunks(16) {
        let idx = *g;
        *g += 1;
        if !s.take(idx) {
            continue;
        }
        for (name, prog) in chunk {
            let bytes = isa::enc(prog);
            s.count("evaluations", 1);
            s.count("states", 1);
            match mode {
                Mode::C06 => {
                    s.count("transitions", 1);
                    s.count("traces_validated_against_impl", 1);
                    if c06_check(s, &bytes, 0, true) {
                        s.count("distinct_nontrivial", 1);
                    }
                }
                Mode::C05 => {
                    if rbpf::EbpfVmMbuff::new(Some(&bytes)).is_ok() {
                        s.count("distinct_nontrivial", 1);
                        c05_check_budget(s, &bytes, 0, &bufs, 20_000, name);
                    }
                }
                Mode::C12 => {
                    if rbpf::EbpfVmMbuff::new(Some(&bytes)).is_ok() {
                        s.count("distinct_nontrivial", 1);
                        c12_check(s, &bytes, 0, Eng::Jit, false);
                        if !thorough || prog.len() <= 200 {
                            c12_check(s, &bytes, 0, Eng::Cl, false);
                        }
                    }
                }
            }
        }
    }
    s.done(&format!("families: 1..={} repetitions of 11 constructs (incl. local-call sites), call chains and bounded recursion of depth 1..=12", if thorough { 300 } else { 40 }));
    if mode == Mode::C05 {
        // far local calls from call sites beyond instruction 65535 (70000-instruction programs)
        for c in isaeng::l4_cases(false, Eng::Interp).into_iter().filter(|c| c.variant == 4) {
            let idx = *g;
            *g += 1;
            if !s.take(idx) {
                continue;
            }
            let Some(prog) = isaeng::l4_program(&c) else { continue };
            let bytes = isa::enc(&prog);
            s.count("evaluations", 1);
            s.count("states", 1);
            s.count("distinct_nontrivial", 1);
            c05_check_budget(s, &bytes, c.p, &bufs, 400_000, "far-local-call");
        }
        // the same over a body of wide loads: every odd slot below the call site is the second half
        // of a wide load, so a return address that loses its high bits lands on a non-instruction
        for pcall in [65_534usize, 65_536, 65_600, 69_000] {
            let idx = *g;
            *g += 1;
            if !s.take(idx) {
                continue;
            }
            let n = 70_000usize;
            let mut prog: Vec<I> = Vec::with_capacity(n + 3);
            let l = isa::lddw(3, 0x1122334455667788);
            while prog.len() < n {
                if prog.len() == pcall {
                    prog.push(isa::call_local((n - pcall) as i32));
                    prog.push(isa::mov64i(4, 0));
                } else {
                    prog.push(l[0]);
                    prog.push(l[1]);
                }
            }
            prog.push(isa::EXIT);
            prog.push(isa::mov64i(0, 1));
            prog.push(isa::EXIT);
            let bytes = isa::enc(&prog);
            s.count("evaluations", 1);
            s.count("states", 1);
            s.count("distinct_nontrivial", 1);
            c05_check_budget(s, &bytes, pcall, &bufs, 200_000, "far-local-call-over-wide-loads");
        }
        s.done("far local calls (70000-instruction programs, call sites on both sides of instruction 65535; bodies of fillers and of wide loads)");
    }
    if mode == Mode::C12 {
        // helper ids over the 32-bit range, registered and called
        let idx = *g;
        *g += 1;
        if s.take(idx) {
            for id in [0u32, 1, 5, 0x7fff_ffff, 0x8000_0000, 0xd744_9092, 0xffff_ffff] {
                let bytes = isa::enc(&[isa::mov64i(1, 1), I::new(0x85, 0, 0, 0, id as i32), isa::EXIT]);
                for eng in [Eng::Jit, Eng::Cl] {
                    for registered in [true, false] {
                        let r = catch(|| {
                            let mut vm = AnyVm::new(VmKind::NoData, Some(&bytes)).map_err(|e| format!("load: {e}"))?;
                            if registered {
                                vm.register_helper(id, h2)?;
                            } else {
                                vm.register_helper(id ^ 0x4000_0000, h2)?;
                            }
                            vm.compile(eng)
                        });
                        s.count("evaluations", 1);
                        s.count("states", 1);
                        s.count("traces_validated_against_impl", 1);
                        match r {
                            Ok(Ok(())) => s.outcome("compile-ok", 1),
                            Ok(Err(e)) if e.starts_with("load") => s.violation("verifier/helper-id/rejects-template", e, json!({"kind":"none"})),
                            Ok(Err(_)) => s.outcome("compile-err (an error value: allowed by C12)", 1),
                            Err(m) => s.violation(&format!("{}/helper-id/compile-{}", eng.name(), panic_class(&m)), format!("compiling `call {id:#x}` with that id {} panicked: {m}", if registered { "registered" } else { "not registered" }), json!({"kind":"none"})),
                        }
                    }
                }
            }
            s.done("helper ids 0, 1, 5, 2^31-1, 2^31, 0xd7449092, 2^32-1 (registered / not registered)");
        }
        // one VM object, two programs: compile A, set_program(B), compile B (every ordered pair of sizes)
        let sizes = [1usize, 10, 100, 500, 580, 600, 700, 1200, 3000];
        for (ui, (uname, unit)) in sizing_units().into_iter().enumerate() {
            let idx = *g;
            *g += 1;
            if !s.take(idx) {
                continue;
            }
            if !thorough && ui % 2 == 1 {
                continue;
            }
            let progs: Vec<Vec<u8>> = sizes.iter().map(|n| {
                let mut p = vec![];
                for _ in 0..*n {
                    p.extend(unit.iter());
                }
                p.push(isa::EXIT);
                isa::enc(&p)
            }).collect();
            for kind in [VmKind::NoData, VmKind::Mbuff, VmKind::Fixed(0x40, 0x50)] {
                for eng in [Eng::Jit, Eng::Cl] {
                    if eng == Eng::Cl && !matches!(kind, VmKind::NoData) && !thorough {
                        continue;
                    }
                    for a in 0..sizes.len() {
                        for b in 0..sizes.len() {
                            let r = catch(|| {
                                let mut vm = AnyVm::new(kind, Some(&progs[a])).map_err(|e| format!("load: {e}"))?;
                                vm.register_helper(1, h1)?;
                                vm.compile(eng)?;
                                vm.set_program(&progs[b], (0x40, 0x50)).map_err(|e| format!("load: {e}"))?;
                                vm.compile(eng)
                            });
                            s.count("evaluations", 1);
                            s.count("states", 1);
                            s.count("transitions", 2);
                            s.count("traces_validated_against_impl", 1);
                            s.count("distinct_nontrivial", 1);
                            match r {
                                Ok(Ok(())) => s.outcome("compile-ok", 1),
                                Ok(Err(e)) if e.starts_with("load") => s.violation(&format!("verifier/recompile-{uname}/rejects-template"), e, json!({"kind":"none"})),
                                Ok(Err(_)) => s.outcome("compile-err (an error value: allowed by C12)", 1),
                                Err(m) => s.violation(&format!("{}/recompile-{uname}/compile-{}", eng.name(), panic_class(&m)), format!("{} VM: compile {} x {uname}, set_program {} x {uname}, compile: panicked: {m}", vm::kind_name(kind), sizes[a], sizes[b]), json!({"kind":"none"})),
                            }
                        }
                    }
                }
            }
        }
        s.done("one VM object: compile, set_program, compile again, for every ordered pair of 9 program sizes");
    }
}

/// C05: one interpretation per VM kind with a given instruction budget.
fn c05_check_budget(s: &mut Sink, bytes: &[u8], pos: usize, bufs: &Bufs, budget: u64, class: &str) {
    for (kind, extra) in [(VmKind::NoData, false), (VmKind::Raw, false), (VmKind::NoData, true)] {
        let r = catch(|| {
            let mut vm = AnyVm::new(kind, Some(bytes)).map_err(|e| format!("load: {e}"))?;
            vm.register_helper(1, h1)?;
            if extra {
                vm.set_calc(c05_calc, Box::new(()))?;
                vm.register_allowed_memory(bufs.small.addr()..bufs.small.addr() + 1);
            }
            bufs.pkt.fill(&[0x11u8; 16]);
            rbpf::verif_hooks::set_insn_budget(Some(budget));
            let mem = if kind == VmKind::NoData { vm::empty_raw() } else { bufs.pkt.raw() };
            let out = vm.exec(Eng::Interp, mem, vm::empty_raw());
            rbpf::verif_hooks::set_insn_budget(None);
            Ok::<_, String>(out)
        });
        rbpf::verif_hooks::set_insn_budget(None);
        s.count("traces_validated_against_impl", 1);
        s.count("transitions", 1);
        match r {
            Ok(Ok(Ok(_))) => s.outcome("value", 1),
            Ok(Ok(Err(e))) => s.outcome(if e.contains("[verif] instruction budget") { "budget" } else { "error" }, 1),
            Ok(Err(e)) => s.outcome(if e.starts_with("load") { "load-error" } else { "setup-error" }, 1),
            Err(m) => s.violation(&format!("interp/{class}/{}", panic_class(&m)), format!("interpreting a verifier-accepted program panicked: {m}"), if bytes.len() <= 8192 { json!({"kind":"interp-total","prog":hex(bytes),"vm":vm::kind_name(kind),"helpers":1,"focus":pos,"budget":budget,"class":class}) } else { json!({"kind":"none"}) }),
        }
    }
}

fn sizing_units() -> Vec<(&'static str, Vec<I>)> {
    vec![
        ("mov64-imm", vec![isa::mov64i(3, 1)]),
        ("lddw", isa::lddw(3, 0x1122334455667788).to_vec()),
        ("div64-reg", vec![I::new(0x3f, 3, 4, 0, 0)]),
        ("mod32-reg", vec![I::new(0x9c, 8, 9, 0, 0)]),
        ("stxdw", vec![I::new(0x7b, 10, 3, -300, 0)]),
        ("jeq+0", vec![I::new(0x15, 3, 0, 0, 5)]),
        ("call-helper", vec![isa::call_helper(1)]),
        ("be16", vec![I::new(0xdc, 7, 0, 0, 16)]),
    ]
}

/// C12 sizing: straight-line programs of every length of several instruction kinds, fix-up tables.
fn c12_sizing(s: &mut Sink, g: &mut u64) {
    let thorough = s.tier == Tier::Thorough;
    let kinds = sizing_units();
    let maxlen = 3000usize;
    for (name, unit) in &kinds {
        for chunk in 0..30 {
            let idx = *g;
            *g += 1;
            if !s.take(idx) {
                continue;
            }
            if s.expired() {
                s.cut("sizing: every length 1..3000");
                return;
            }
            let mut nn = 0;
            for len in (chunk * 100 + 1)..=((chunk + 1) * 100).min(maxlen) {
                let mut prog = vec![];
                for _ in 0..len {
                    prog.extend(unit.iter());
                }
                prog.push(isa::EXIT);
                let bytes = isa::enc(&prog);
                for (eng, kind) in [(Eng::Jit, VmKind::NoData), (Eng::Jit, VmKind::Fixed(0x40, 0x50)), (Eng::Jit, VmKind::Mbuff), (Eng::Cl, VmKind::NoData)] {
                    if eng == Eng::Cl && !(thorough || len <= 300 || len % 97 == 0) {
                        continue;
                    }
                    let r = catch(|| {
                        let mut vm = AnyVm::new(kind, Some(&bytes)).map_err(|e| format!("load: {e}"))?;
                        vm.register_helper(1, h1)?;
                        vm.compile(eng)
                    });
                    nn += 1;
                    s.count("traces_validated_against_impl", 1);
                    match r {
                        Ok(Ok(())) => s.outcome("compile-ok", 1),
                        Ok(Err(e)) => {
                            if e.starts_with("load") {
                                s.violation(&format!("verifier/sizing-{name}/rejects-template"), e, json!({"kind":"none"}));
                            } else {
                                { let _ = e; s.outcome("compile-err (an error value: allowed by C12)", 1) }
                            }
                        }
                        Err(m) => s.violation(&format!("{}/sizing-{name}/compile-{}", eng.name(), panic_class(&m)), format!("{len} x {name}: compilation panicked: {m}"), json!({"kind":"compile-sizing","unit":name,"len":len,"eng":eng.name(),"vm":vm::kind_name(kind)})),
                    }
                }
            }
            s.count("evaluations", nn);
            s.count("states", nn);
            s.count("transitions", nn);
            s.count("distinct_nontrivial", nn);
        }
    }
    s.done("sizing: every length 1..3000 of 8 instruction kinds (JIT on no-data, fixed-metadata and metadata VMs: the prologues differ; Cranelift all lengths in thorough)");
    // jumps: k forward/backward jumps (fix-up tables); very long programs
    let idx = *g;
    *g += 1;
    if s.take(idx) {
        let mut nn = 0;
        for k in [1usize, 2, 10, 100, 500, 1000, 2000] {
            for back in [false, true] {
                let mut prog = vec![isa::mov64i(0, 0)];
                for j in 0..k {
                    if back && j > 0 {
                        prog.push(I::new(0x15, 0, 0, -2, 77)); // jeq r0,77,-2 (never taken)
                    } else {
                        prog.push(I::new(0x15, 0, 0, 0, 77));
                    }
                }
                prog.push(isa::EXIT);
                let bytes = isa::enc(&prog);
                for eng in [Eng::Jit, Eng::Cl] {
                    let r = catch(|| {
                        let mut vm = AnyVm::new(VmKind::NoData, Some(&bytes)).map_err(|e| format!("load: {e}"))?;
                        vm.compile(eng)
                    });
                    nn += 1;
                    s.count("traces_validated_against_impl", 1);
                    match r {
                        Ok(Ok(())) => s.outcome("compile-ok", 1),
                        Ok(Err(_)) => s.outcome("compile-err (an error value: allowed by C12)", 1),
                        Err(m) => s.violation(&format!("{}/fixups/compile-{}", eng.name(), panic_class(&m)), format!("{k} jumps: compilation panicked: {m}"), json!({"kind":"none"})),
                    }
                }
            }
        }
        s.count("evaluations", nn);
        s.count("states", nn);
        s.count("transitions", nn);
        s.done("fix-up tables: 1..2000 jumps");
    }
    for n in if thorough { vec![65535usize, 65536, 65537, 1_000_000] } else { vec![65535usize, 65536, 65537] } {
        let idx = *g;
        *g += 1;
        if !s.take(idx) {
            continue;
        }
        let mut prog = vec![isa::add64i(0, 1); n];
        prog[0] = isa::mov64i(0, 0);
        prog[n - 2] = I::new(0x3f, 0, 3, 0, 0);
        prog[n - 1] = isa::EXIT;
        let bytes = isa::enc(&prog);
        for eng in [Eng::Jit, Eng::Cl] {
            let r = catch(|| {
                let mut vm = AnyVm::new(VmKind::NoData, Some(&bytes)).map_err(|e| format!("load: {e}"))?;
                vm.compile(eng)
            });
            s.count("traces_validated_against_impl", 1);
            s.count("evaluations", 1);
            s.count("states", 1);
            s.count("transitions", 1);
            match r {
                Ok(Ok(())) => s.outcome("compile-ok", 1),
                Ok(Err(_)) => s.outcome("compile-err (an error value: allowed by C12)", 1),
                Err(m) => s.violation(&format!("{}/long/compile-{}", eng.name(), panic_class(&m)), format!("{n} instructions: compilation panicked: {m}"), json!({"kind":"none"})),
            }
        }
    }
    s.done("long programs: 65535, 65536, 65537 (thorough: 1000000) instructions");
    if thorough {
        // every sizing unit repeated up to the verifier's program-size limit
        for (name, unit) in sizing_units() {
            let len = (1_000_000 - 1) / unit.len();
            let idx = *g;
            *g += 1;
            if !s.take(idx) {
                continue;
            }
            let mut prog = Vec::with_capacity(1_000_000);
            for _ in 0..len {
                prog.extend(unit.iter());
            }
            prog.push(isa::EXIT);
            let bytes = isa::enc(&prog);
            for eng in [Eng::Jit, Eng::Cl] {
                let r = catch(|| {
                    let mut vm = AnyVm::new(VmKind::NoData, Some(&bytes)).map_err(|e| format!("load: {e}"))?;
                    vm.register_helper(1, h1)?;
                    vm.compile(eng)
                });
                s.count("traces_validated_against_impl", 1);
                s.count("evaluations", 1);
                s.count("states", 1);
                s.count("transitions", 1);
                let rp = json!({"kind":"compile-sizing","unit":name,"len":len,"eng":eng.name(),"vm":"nodata"});
                match r {
                    Ok(Ok(())) => s.outcome("compile-ok", 1),
                    Ok(Err(e)) if e.starts_with("load") => s.violation(&format!("verifier/sizing-{name}/rejects-template"), e, json!({"kind":"none"})),
                    Ok(Err(_)) => s.outcome("compile-err (an error value: allowed by C12)", 1),
                    Err(m) => s.violation(&format!("{}/sizing-{name}@1M-insns/compile-{}", eng.name(), panic_class(&m)), format!("{len} x {name}: compilation panicked: {m}"), rp),
                }
            }
        }
        s.done("every sizing unit repeated to fill 1000000 instruction slots");
    }
    // jit_compile / cranelift_compile called again and again on one VM object, no set_program in
    // between: each call is a compilation of its own (a buffer reused across calls must be reset)
    {
        let idx = *g;
        *g += 1;
        if s.take(idx) {
            let mut nn = 0;
            for (uname, unit) in sizing_units() {
                for len in [1usize, 60, 200, 450, 700, 1400, 3000] {
                    let mut prog: Vec<I> = vec![isa::mov64i(0, 0), isa::mov64i(7, 3), isa::mov64i(8, 1000), isa::mov64i(9, 7), isa::mov64i(3, 50), isa::mov64i(4, 3)];
                    for _ in 0..len {
                        prog.extend(unit.iter());
                    }
                    prog.push(isa::mov64i(0, 5));
                    prog.push(isa::EXIT);
                    let bytes = isa::enc(&prog);
                    for eng in [Eng::Jit, Eng::Cl] {
                        if eng == Eng::Cl && len > 700 {
                            continue;
                        }
                        nn += 1;
                        s.count("traces_validated_against_impl", 1);
                        let b2 = bytes.clone();
                        let end = in_child(120, move || {
                            let r = catch(|| {
                                let mut vm = AnyVm::new(VmKind::NoData, Some(&b2)).map_err(|e| format!("load: {e}"))?;
                                vm.register_helper(1, h1)?;
                                let mut outs = vec![];
                                for _ in 0..6 {
                                    vm.compile(eng)?;
                                    outs.push(vm.exec(eng, vm::empty_raw(), vm::empty_raw())?);
                                }
                                Ok::<_, String>(outs)
                            });
                            format!("{r:?}").into_bytes()
                        });
                        let rp = json!({"kind":"none"});
                        match end {
                            ChildEnd::Ok(b) => {
                                let t = String::from_utf8_lossy(&b).to_string();
                                if t != "Ok(Ok([5, 5, 5, 5, 5, 5]))" && !t.starts_with("Ok(Err(") {
                                    s.violation(&format!("{}/recompile-same-vm/{}", eng.name(), if t.starts_with("Err") { panic_class(&t) } else { "value-mismatch".to_string() }), format!("{len} x {uname}: six compilations of one VM object: {t}"), rp);
                                } else if t.starts_with("Ok(Err(") && !t.contains("load") {
                                    s.outcome("compile-err (an error value: allowed by C12)", 1);
                                }
                            }
                            ChildEnd::Signal(sig) => s.violation(&format!("{}/recompile-same-vm/crash:{}", eng.name(), signame(sig)), format!("{len} x {uname}: died with {}", signame(sig)), rp),
                            ChildEnd::Exit(c) => s.violation(&format!("{}/recompile-same-vm/child-exit:{c}", eng.name()), format!("{len} x {uname}"), rp),
                        }
                    }
                }
            }
            s.count("evaluations", nn);
            s.count("states", nn);
            s.done("six compilations in a row of one VM object, 7 sizes x 8 instruction kinds");
        }
    }
    // a helper that lives below 2^31 (a trampoline in MAP_32BIT memory): a compiler that picks the
    // form of the call from the distance between code buffer and helper sees another distance in
    // its sizing pass than in its emitting pass
    {
        let idx = *g;
        *g += 1;
        if s.take(idx) {
            let low: rbpf::Helper = unsafe {
                let m = libc::mmap(std::ptr::null_mut(), 4096, libc::PROT_READ | libc::PROT_WRITE | libc::PROT_EXEC, libc::MAP_PRIVATE | libc::MAP_ANONYMOUS | libc::MAP_32BIT, -1, 0);
                assert!(m != libc::MAP_FAILED && (m as usize) < (1usize << 31), "MAP_32BIT mapping");
                let code = m as *mut u8;
                // movabs rax, h1 ; jmp rax
                let mut b = vec![0x48u8, 0xb8];
                b.extend_from_slice(&(h1 as usize as u64).to_le_bytes());
                b.extend_from_slice(&[0xff, 0xe0]);
                std::ptr::copy_nonoverlapping(b.as_ptr(), code, b.len());
                std::mem::transmute::<*mut u8, rbpf::Helper>(code)
            };
            let mut nn = 0;
            for k in [1usize, 2, 50, 100, 250, 300, 350, 400, 450, 500, 550, 600, 800, 1000, 2000, 5000] {
                let mut prog = vec![];
                for _ in 0..k {
                    // r1-r5 do not survive a helper call: set them before every call
                    prog.extend([isa::mov64i(1, 1), isa::mov64i(2, 2), isa::mov64i(3, 3), isa::mov64i(4, 4), isa::mov64i(5, 5)]);
                    prog.push(isa::call_helper(1));
                }
                prog.push(isa::EXIT);
                let bytes = isa::enc(&prog);
                for eng in [Eng::Jit, Eng::Cl] {
                    for kind in [VmKind::NoData, VmKind::Fixed(0, 8)] {
                        let b2 = bytes.clone();
                        let end = in_child(60, move || {
                            let r = catch(|| {
                                let mut vm = AnyVm::new(kind, Some(&b2)).map_err(|e| format!("load: {e}"))?;
                                vm.register_helper(1, low)?;
                                vm.compile(eng)?;
                                let mut pk = [0u8; 16];
                                vm.exec(eng, if matches!(kind, VmKind::NoData) { vm::empty_raw() } else { (pk.as_mut_ptr(), 16) }, vm::empty_raw())
                            });
                            match r {
                                Ok(Ok(v)) => format!("OK {v:#x}").into_bytes(),
                                Ok(Err(e)) => format!("ERR {e}").into_bytes(),
                                Err(m) => format!("PANIC {m}").into_bytes(),
                            }
                        });
                        nn += 1;
                        s.count("traces_validated_against_impl", 1);
                        let want = h1(1, 2, 3, 4, 5);
                        let rp = json!({"kind":"none"});
                        match end {
                            ChildEnd::Ok(b) if b.starts_with(b"OK") => {
                                if String::from_utf8_lossy(&b) != format!("OK {want:#x}") {
                                    s.violation(&format!("{}/low-address-helper/value-mismatch", eng.name()), format!("{k} calls of a helper at an address below 2^31: {} want {want:#x}", String::from_utf8_lossy(&b)), rp);
                                }
                            }
                            ChildEnd::Ok(b) if b.starts_with(b"ERR load") => s.violation("verifier/low-address-helper/rejects-template", String::from_utf8_lossy(&b).to_string(), rp),
                            ChildEnd::Ok(b) if b.starts_with(b"ERR") => s.outcome("compile-err (an error value: allowed by C12)", 1),
                            ChildEnd::Ok(b) => s.violation(&format!("{}/low-address-helper/compile-{}", eng.name(), panic_class(&String::from_utf8_lossy(&b))), format!("{k} calls of a helper at an address below 2^31: {}", String::from_utf8_lossy(&b)), rp),
                            ChildEnd::Signal(sig) => s.violation(&format!("{}/low-address-helper/crash:{}", eng.name(), signame(sig)), format!("{k} calls of a helper at an address below 2^31: died with {}", signame(sig)), rp),
                            ChildEnd::Exit(c) => s.violation(&format!("{}/low-address-helper/child-exit:{c}", eng.name()), format!("{k} calls"), rp),
                        }
                    }
                }
            }
            s.count("evaluations", nn);
            s.count("states", nn);
            s.done("1..5000 calls of a helper whose address is below 2^31");
        }
    }
    // every machine-code jump distance (the layer-5 programs of C03), compile only, twice
    for a in 0..=32usize {
        let idx = *g;
        *g += 1;
        if !s.take(idx) {
            continue;
        }
        let mut nn = 0;
        for b in 0..=64usize {
            for shape in 0..7u8 {
                let bytes = isa::enc(&isaeng::l5_distance_program(shape, a, b));
                c12_check(s, &bytes, 0, Eng::Jit, false);
                nn += 1;
                if a % 8 == 0 && b % 8 == 0 {
                    c12_check(s, &bytes, 0, Eng::Cl, false);
                    nn += 1;
                }
            }
        }
        s.count("evaluations", nn);
        s.count("states", nn);
    }
    s.done("jump distances: 7 jump shapes x 0..=32 seven-byte and 0..=64 three-byte fillers");
    // long chains, compiled on a thread with a 512 KiB stack: a compiler pass whose recursion depth
    // grows with the length of a chain overflows it
    let chain_lens: Vec<usize> = if thorough { vec![20_000, 100_000, 333_000] } else { vec![20_000] };
    for k in chain_lens {
        for (cname, unit_len) in [("if-chain", 2usize), ("jump-to-end", 1), ("back-jumps", 1), ("call-chain", 2), ("wide-loads", 2), ("helper-calls", 1), ("ja-chain", 1)] {
            let idx = *g;
            *g += 1;
            if !s.take(idx) {
                continue;
            }
            let mut prog: Vec<I> = vec![isa::mov64i(0, 0), isa::mov64i(1, 0)];
            match cname {
                "if-chain" => {
                    for j in 0..k {
                        prog.push(I::new(0x15, 1, 0, 1, (j % 1000) as i32 + 1));
                        prog.push(isa::add64i(0, 1));
                    }
                }
                "jump-to-end" => {
                    // every conditional jump targets the final exit (while it is within 16 bits), then the next block
                    let k = k.min(32_000);
                    for j in 0..k {
                        prog.push(I::new(0x15, 1, 0, (k - j - 1) as i16, 7));
                    }
                }
                "back-jumps" => {
                    for _ in 0..k {
                        prog.push(I::new(0x15, 1, 0, -2, 77));
                    }
                }
                "call-chain" => {
                    // f_j: call f_{j+1}; exit
                    for _ in 0..k {
                        prog.push(isa::call_local(1));
                        prog.push(isa::EXIT);
                    }
                }
                "wide-loads" => {
                    for j in 0..k {
                        prog.extend(isa::lddw(2, j as u64));
                    }
                }
                "helper-calls" => {
                    for _ in 0..k {
                        prog.push(isa::call_helper(1));
                    }
                }
                _ => {
                    for _ in 0..k {
                        prog.push(isa::ja(0));
                    }
                }
            }
            let _ = unit_len;
            prog.push(isa::EXIT);
            let bytes = isa::enc(&prog);
            for eng in [Eng::Jit, Eng::Cl] {
                let b2 = bytes.clone();
                let end = in_small_stack_child(300, 512 * 1024, move || {
                    let r = catch(|| {
                        let mut vm = AnyVm::new(VmKind::NoData, Some(&b2)).map_err(|e| format!("load: {e}"))?;
                        vm.register_helper(1, h1)?;
                        vm.compile(eng)
                    });
                    match r {
                        Ok(Ok(())) => b"OK".to_vec(),
                        Ok(Err(e)) => format!("ERR {e}").into_bytes(),
                        Err(m) => format!("PANIC {m}").into_bytes(),
                    }
                });
                s.count("traces_validated_against_impl", 1);
                s.count("evaluations", 1);
                s.count("states", 1);
                s.count("transitions", 1);
                let rp = json!({"kind":"none"});
                match end {
                    ChildEnd::Ok(b) if b.starts_with(b"OK") => s.outcome("compile-ok", 1),
                    ChildEnd::Ok(b) if b.starts_with(b"ERR load") => s.violation(&format!("verifier/chain-{cname}/rejects-template"), String::from_utf8_lossy(&b).to_string(), rp),
                    ChildEnd::Ok(b) if b.starts_with(b"ERR") => s.outcome("compile-err (an error value: allowed by C12)", 1),
                    ChildEnd::Ok(b) => s.violation(&format!("{}/chain-{cname}/compile-{}", eng.name(), panic_class(&String::from_utf8_lossy(&b))), format!("{k} x {cname}: {}", String::from_utf8_lossy(&b)), rp),
                    ChildEnd::Signal(sig) => s.violation(&format!("{}/chain-{cname}/crash:{}", eng.name(), signame(sig)), format!("{k} x {cname}: compilation on a thread with a 512 KiB stack died with {} (stack exhausted: recursion depth grows with the chain)", signame(sig)), rp),
                    ChildEnd::Exit(c) => s.violation(&format!("{}/chain-{cname}/child-exit:{c}", eng.name()), format!("{k} x {cname}"), rp),
                }
            }
        }
    }
    s.done("long chains (conditional jumps, jumps to one target, backward jumps, local calls, wide loads, helper calls, ja) compiled on a 512 KiB stack");
    // far jumps and far local calls (32-bit displacement for calls, 16-bit for jumps)
    for (n, p, d, call) in [
        (70_000usize, 10usize, 32768i32, true), (70_000, 10, 40_000, true), (70_000, 10, 69_000, true), (70_000, 69_000, -32769, true),
        (70_000, 69_000, -40_000, true), (70_000, 69_000, -68_000, true), (70_000, 40_000, 200, true), (70_000, 40_000, -200, true),
        (70_000, 10, 32767, false), (70_000, 69_000, -32768, false), (70_000, 40_000, 127, false), (70_000, 40_000, -129, false),
    ] {
        let idx = *g;
        *g += 1;
        if !s.take(idx) {
            continue;
        }
        let mut prog = vec![isa::add64i(0, 1); n];
        prog[0] = isa::mov64i(0, 0);
        prog[n - 1] = isa::EXIT;
        let t = (p as i64 + 1 + d as i64) as usize;
        if call {
            prog[p] = isa::call_local(d);
            prog[t + 1] = isa::EXIT;
        } else {
            prog[p] = I::new(0x15, 0, 0, d as i16, 5);
        }
        let bytes = isa::enc(&prog);
        for eng in [Eng::Jit, Eng::Cl] {
            let r = catch(|| {
                let mut vm = AnyVm::new(VmKind::NoData, Some(&bytes)).map_err(|e| format!("load: {e}"))?;
                vm.compile(eng)
            });
            s.count("traces_validated_against_impl", 1);
            s.count("evaluations", 1);
            s.count("states", 1);
            s.count("transitions", 1);
            let what = if call { "far-local-call" } else { "far-jump" };
            match r {
                Ok(Ok(())) => s.outcome("compile-ok", 1),
                Ok(Err(e)) if call && eng == Eng::Cl && !e.starts_with("load") => s.outcome("cranelift-refused-local-call", 1),
                Ok(Err(e)) if e.starts_with("load") => s.violation(&format!("verifier/{what}/rejects-template"), format!("{n} instructions, {what} at {p} displacement {d}: {e}"), json!({"kind":"none"})),
                Ok(Err(_)) => s.outcome("compile-err (an error value: allowed by C12)", 1),
                Err(m) => s.violation(&format!("{}/{what}/compile-{}", eng.name(), panic_class(&m)), format!("{n} instructions, {what} at {p} displacement {d}: compilation panicked: {m}"), json!({"kind":"none"})),
            }
        }
    }
    s.done("far jumps (16-bit displacement limits) and far local calls (beyond +-32768) in 70000-instruction programs");
    // thorough: the layer-4 programs of C01/C03/C04 at the 1,000,000-instruction limit, compile only
    if thorough {
        for c in isaeng::l4_cases(true, Eng::Cl).into_iter().filter(|c| c.n >= 1_000_000) {
            let idx = *g;
            *g += 1;
            if !s.take(idx) {
                continue;
            }
            let Some(prog) = isaeng::l4_program(&c) else { continue };
            let bytes = isa::enc(&prog);
            let what = match c.variant { 0 => "far-ja", 1 => "far-jcc", 2 => "far-div64-reg-zero", 3 => "far-mod64-reg-zero", 5 => "far-div32-reg", _ => "far-local-call" };
            for eng in [Eng::Jit, Eng::Cl] {
                let r = catch(|| {
                    let mut vm = AnyVm::new(VmKind::NoData, Some(&bytes)).map_err(|e| format!("load: {e}"))?;
                    vm.compile(eng)
                });
                s.count("traces_validated_against_impl", 1);
                s.count("evaluations", 1);
                s.count("states", 1);
                s.count("transitions", 1);
                let rp = json!({"kind":"isa-l4","eng":eng.name(),"n":c.n,"p":c.p,"d":c.d,"variant":c.variant});
                match r {
                    Ok(Ok(())) => s.outcome("compile-ok", 1),
                    Ok(Err(e)) if c.variant == 4 && eng == Eng::Cl && !e.starts_with("load") => s.outcome("cranelift-refused-local-call", 1),
                    Ok(Err(_)) => s.outcome("compile-err (an error value: allowed by C12)", 1),
                    Err(m) => s.violation(&format!("{}/{what}@1M-insns/compile-{}", eng.name(), panic_class(&m)), format!("1000000 instructions, p {} d {}: compilation panicked: {m}", c.p, c.d), rp),
                }
            }
        }
        s.done("layer-4 programs of 1000000 instructions (compile only)");
    }
}

pub fn run(s: &mut Sink, mode: Mode) {
    s.meta.insert("rule".into(), json!("byte strings are enumerated as (length n, focus position, context combination, focus instruction) - a complete product, no sampling; a case is non-trivial when the default verifier accepts it (accepted strings are what C05/C12 quantify over; for C06 both verdicts are compared on every string)"));
    s.meta.insert("assumptions".into(), json!(["reference predicate in mc/src/refverif.rs transcribes the C06 statement", "rule interactions that need two full-alphabet instructions at once are covered only through the context alphabet"]));
    let mut g = 0u64;
    enumerate_special(s, mode, &mut g);
    families(s, mode, &mut g);
    if mode == Mode::C12 {
        c12_sizing(s, &mut g);
    }
    enumerate(s, mode, &mut g);
}

// ------------------------------------------------------------------------------------------
// replays

fn collect(s: Sink) -> Vec<String> {
    let r = s.finish();
    r["violations"].as_array().unwrap().iter().map(|x| format!("{}: {}", x["sig"].as_str().unwrap(), x["detail"].as_str().unwrap())).collect()
}

pub fn replay_verify(v: &Value) -> Vec<String> {
    let bytes = unhex(v["prog"].as_str().unwrap());
    let mut s = Sink::new("replay", Tier::Quick, 0, 1, None, None, 3600);
    c06_check(&mut s, &bytes, v["focus"].as_u64().unwrap_or(0) as usize, true);
    collect(s)
}

pub fn replay_interp_total(v: &Value) -> Vec<String> {
    let bytes = unhex(v["prog"].as_str().unwrap());
    let mut s = Sink::new("replay", Tier::Quick, 0, 1, None, None, 3600);
    let bufs = Bufs { pkt: Buf::new(16, 0), mb: Buf::new(32, 0), small: Buf::new(1, 0) };
    if rbpf::EbpfVmMbuff::new(Some(&bytes)).is_ok() {
        match v["budget"].as_u64() {
            Some(b) => c05_check_budget(&mut s, &bytes, 0, &bufs, b, v["class"].as_str().unwrap_or("family")),
            None => c05_check(&mut s, &bytes, v["focus"].as_u64().unwrap_or(0) as usize, &bufs),
        }
    }
    collect(s)
}

pub fn replay_compile_total(v: &Value) -> Vec<String> {
    let bytes = unhex(v["prog"].as_str().unwrap());
    let mut s = Sink::new("replay", Tier::Quick, 0, 1, None, None, 3600);
    if rbpf::EbpfVmMbuff::new(Some(&bytes)).is_ok() {
        c12_check(&mut s, &bytes, v["focus"].as_u64().unwrap_or(0) as usize, Eng::parse(v["eng"].as_str().unwrap()), true);
    }
    collect(s)
}

pub fn replay_compile_sizing(v: &Value) -> Vec<String> {
    let name = v["unit"].as_str().unwrap();
    let len = v["len"].as_u64().unwrap() as usize;
    let eng = Eng::parse(v["eng"].as_str().unwrap());
    let unit: Vec<I> = match name {
        "mov64-imm" => vec![isa::mov64i(3, 1)],
        "lddw" => isa::lddw(3, 0x1122334455667788).to_vec(),
        "div64-reg" => vec![I::new(0x3f, 3, 4, 0, 0)],
        "mod32-reg" => vec![I::new(0x9c, 8, 9, 0, 0)],
        "stxdw" => vec![I::new(0x7b, 10, 3, -300, 0)],
        "jeq+0" => vec![I::new(0x15, 3, 0, 0, 5)],
        "call-helper" => vec![isa::call_helper(1)],
        _ => vec![I::new(0xdc, 7, 0, 0, 16)],
    };
    let mut prog = vec![];
    for _ in 0..len {
        prog.extend(unit.iter());
    }
    prog.push(isa::EXIT);
    let bytes = isa::enc(&prog);
    let r = catch(|| {
        let mut vm = AnyVm::new(v["vm"].as_str().map_or(VmKind::NoData, vm::parse_kind), Some(&bytes)).map_err(|e| format!("load: {e}"))?;
        vm.register_helper(1, h1)?;
        vm.compile(eng)
    });
    match r {
        Ok(Ok(())) => vec![],
        Ok(Err(e)) if e.starts_with("load") => vec![format!("verifier/sizing-{name}/rejects-template: {e}")],
        Ok(Err(_)) => vec![],
        Err(m) => vec![format!("{}/sizing-{name}/compile-{}: {len} x {name}: compilation panicked: {m}", eng.name(), panic_class(&m))],
    }
}

#[allow(dead_code)]
fn _unused(_: Helpers) {}
