//! Independent model of the assembly syntax: mnemonic table, encoder, operand renderer and a
//! small parser for operand text (used to check what the disassembler prints).

use crate::isa::*;

#[derive(Clone, Copy, Debug, PartialEq, Eq)]
pub enum Form {
    AluBin,
    AluUn,
    LdImm,
    LdAbs,
    LdInd,
    LdReg,
    StImm,
    StReg,
    Ja,
    Jcc,
    Call,
    Callx,
    Endian(i32),
    NoOp,
}

#[derive(Clone, Debug)]
pub struct Mn {
    pub name: String,
    pub form: Form,
    /// opcode; for AluBin / Jcc this is the immediate-form opcode (register form = | 0x08)
    pub opc: u8,
}

/// Every mnemonic of the documented syntax.
pub fn mnemonics() -> Vec<Mn> {
    let mut v = vec![];
    let alu: [(&str, u8); 12] = [
        ("add", 0x0), ("sub", 0x1), ("mul", 0x2), ("div", 0x3), ("or", 0x4), ("and", 0x5),
        ("lsh", 0x6), ("rsh", 0x7), ("mod", 0x9), ("xor", 0xa), ("mov", 0xb), ("arsh", 0xc),
    ];
    for (n, op) in alu {
        v.push(Mn { name: n.to_string(), form: Form::AluBin, opc: (op << 4) | 0x07 });
        v.push(Mn { name: format!("{n}64"), form: Form::AluBin, opc: (op << 4) | 0x07 });
        v.push(Mn { name: format!("{n}32"), form: Form::AluBin, opc: (op << 4) | 0x04 });
    }
    v.push(Mn { name: "neg".into(), form: Form::AluUn, opc: 0x87 });
    v.push(Mn { name: "neg64".into(), form: Form::AluUn, opc: 0x87 });
    v.push(Mn { name: "neg32".into(), form: Form::AluUn, opc: 0x84 });
    for (sfx, sz) in [("w", 0x00u8), ("h", 0x08), ("b", 0x10), ("dw", 0x18)] {
        v.push(Mn { name: format!("ldabs{sfx}"), form: Form::LdAbs, opc: 0x20 | sz });
        v.push(Mn { name: format!("ldind{sfx}"), form: Form::LdInd, opc: 0x40 | sz });
        v.push(Mn { name: format!("ldx{sfx}"), form: Form::LdReg, opc: 0x61 | sz });
        v.push(Mn { name: format!("st{sfx}"), form: Form::StImm, opc: 0x62 | sz });
        v.push(Mn { name: format!("stx{sfx}"), form: Form::StReg, opc: 0x63 | sz });
    }
    v.push(Mn { name: "lddw".into(), form: Form::LdImm, opc: 0x18 });
    v.push(Mn { name: "ja".into(), form: Form::Ja, opc: 0x05 });
    let jc: [(&str, u8); 11] = [
        ("jeq", 0x1), ("jgt", 0x2), ("jge", 0x3), ("jset", 0x4), ("jne", 0x5), ("jsgt", 0x6),
        ("jsge", 0x7), ("jlt", 0xa), ("jle", 0xb), ("jslt", 0xc), ("jsle", 0xd),
    ];
    for (n, c) in jc {
        v.push(Mn { name: n.to_string(), form: Form::Jcc, opc: (c << 4) | 0x05 });
        v.push(Mn { name: format!("{n}32"), form: Form::Jcc, opc: (c << 4) | 0x06 });
    }
    v.push(Mn { name: "call".into(), form: Form::Call, opc: 0x85 });
    v.push(Mn { name: "callx".into(), form: Form::Callx, opc: 0x85 });
    for sz in [16, 32, 64] {
        v.push(Mn { name: format!("be{sz}"), form: Form::Endian(sz), opc: 0xdc });
        v.push(Mn { name: format!("le{sz}"), form: Form::Endian(sz), opc: 0xd4 });
    }
    v.push(Mn { name: "exit".into(), form: Form::NoOp, opc: 0x95 });
    v
}

/// Names that are close to mnemonics but are not in the syntax.
pub fn near_misses() -> Vec<&'static str> {
    vec![
        "ad", "addd", "add16", "add8", "add3", "add644", "neg16", "mov3", "movs", "ldxq", "ldx", "ldabs",
        "ldind", "ld", "st", "stx", "stq", "stxq", "lddww", "ldw", "lddh", "jmp", "j", "jeq64", "jeq16",
        "jsett", "jnz", "jz", "jsl", "calll", "cal", "callx1", "be", "le", "be8", "le8", "be128", "le24",
        "exitt", "exi", "ret", "nop", "EXIT", "Add", "ja32", "neg3",
        // (not here: stxxaddw / stxxadddw / tail_call - names rbpf's own disassembler prints for
        // supported opcodes; an assembler that learns them does not break C13)
        // very short names, names that are numbers, names ending in digits
        "a", "x", "r", "0", "1", "7", "9", "00", "16", "32", "64", "a1", "r1x", "x64", "e", "_", "mov_", "ld64",
    ]
}

#[derive(Clone, Copy, Debug, PartialEq, Eq)]
pub enum Op {
    R(i128),
    N(i128),
    M(i128, i128),
}

fn reg_ok(r: i128) -> bool {
    (0..16).contains(&r)
}
fn off_ok(o: i128) -> bool {
    (-32768..=32767).contains(&o)
}
fn imm_ok(i: i128) -> bool {
    (-(1i128 << 31)..(1i128 << 31)).contains(&i)
}
/// 64-bit literal: anything a 64-bit two's complement word can denote
fn imm64_ok(i: i128) -> bool {
    (-(1i128 << 63)..(1i128 << 64)).contains(&i)
}

/// The encoding a mnemonic with an operand list denotes, or None (= the assembler must
/// return an error).
pub fn encode(m: &Mn, ops: &[Op]) -> Option<Vec<I>> {
    use Form::*;
    use Op::*;
    let one = |i: I| Some(vec![i]);
    match (m.form, ops) {
        (AluBin, [R(d), R(s)]) if reg_ok(*d) && reg_ok(*s) => one(I::new(m.opc | 0x08, *d as u8, *s as u8, 0, 0)),
        (AluBin, [R(d), N(i)]) if reg_ok(*d) && imm_ok(*i) => one(I::new(m.opc, *d as u8, 0, 0, *i as i32)),
        (AluUn, [R(d)]) if reg_ok(*d) => one(I::new(m.opc, *d as u8, 0, 0, 0)),
        (LdAbs, [N(i)]) if imm_ok(*i) => one(I::new(m.opc, 0, 0, 0, *i as i32)),
        (LdInd, [R(s), N(i)]) if reg_ok(*s) && imm_ok(*i) => one(I::new(m.opc, 0, *s as u8, 0, *i as i32)),
        (LdReg, [R(d), M(s, o)]) if reg_ok(*d) && reg_ok(*s) && off_ok(*o) => one(I::new(m.opc, *d as u8, *s as u8, *o as i16, 0)),
        (StReg, [M(d, o), R(s)]) if reg_ok(*d) && reg_ok(*s) && off_ok(*o) => one(I::new(m.opc, *d as u8, *s as u8, *o as i16, 0)),
        (StImm, [M(d, o), N(i)]) if reg_ok(*d) && off_ok(*o) && imm_ok(*i) => one(I::new(m.opc, *d as u8, 0, *o as i16, *i as i32)),
        (NoOp, []) => one(I::new(m.opc, 0, 0, 0, 0)),
        (Ja, [N(o)]) if off_ok(*o) => one(I::new(m.opc, 0, 0, *o as i16, 0)),
        (Jcc, [R(d), R(s), N(o)]) if reg_ok(*d) && reg_ok(*s) && off_ok(*o) => one(I::new(m.opc | 0x08, *d as u8, *s as u8, *o as i16, 0)),
        (Jcc, [R(d), N(i), N(o)]) if reg_ok(*d) && imm_ok(*i) && off_ok(*o) => one(I::new(m.opc, *d as u8, 0, *o as i16, *i as i32)),
        (Call, [N(i)]) if imm_ok(*i) => one(I::new(m.opc, 0, 0, 0, *i as i32)),
        (Callx, [N(i)]) if imm_ok(*i) => one(I::new(m.opc, 0, 1, 0, *i as i32)),
        (Endian(sz), [R(d)]) if reg_ok(*d) => one(I::new(m.opc, *d as u8, 0, 0, sz)),
        (LdImm, [R(d), N(i)]) if reg_ok(*d) && imm64_ok(*i) => {
            let w = *i as u64; // two's complement, low 64 bits
            Some(vec![I::new(m.opc, *d as u8, 0, 0, w as u32 as i32), I::new(0, 0, 0, 0, (w >> 32) as u32 as i32)])
        }
        _ => None,
    }
}

#[derive(Clone, Copy, Debug, PartialEq, Eq)]
pub enum Spell {
    Dec,
    PlusDec,
    Hex,
    PlusHex,
    HexUpper,
    DecLead0,
    HexLead0,
}

pub const SPELLS_POS: [Spell; 7] = [Spell::Dec, Spell::PlusDec, Spell::Hex, Spell::PlusHex, Spell::HexUpper, Spell::DecLead0, Spell::HexLead0];
pub const SPELLS_NEG: [Spell; 2] = [Spell::Dec, Spell::Hex];

/// Render an integer in a given spelling; negative values get a leading '-'.
pub fn spell_int(v: i128, sp: Spell) -> String {
    let neg = v < 0;
    let a = v.unsigned_abs();
    let body = match sp {
        Spell::Dec | Spell::PlusDec => format!("{a}"),
        Spell::Hex | Spell::PlusHex => format!("{a:#x}"),
        Spell::HexUpper => format!("0x{a:X}"),
        Spell::DecLead0 => format!("00{a}"),
        Spell::HexLead0 => format!("0x000{a:x}"),
    };
    if neg {
        format!("-{body}")
    } else {
        match sp {
            Spell::PlusDec | Spell::PlusHex => format!("+{body}"),
            _ => body,
        }
    }
}

pub fn spell_op(o: &Op, sp: Spell, mem_zero_short: bool) -> String {
    match o {
        Op::R(r) => format!("r{r}"),
        Op::N(v) => spell_int(*v, sp),
        Op::M(r, off) => {
            if *off == 0 && mem_zero_short {
                format!("[r{r}]")
            } else if *off < 0 {
                format!("[r{r}{}]", spell_int(*off, if matches!(sp, Spell::Hex | Spell::PlusHex | Spell::HexUpper | Spell::HexLead0) { Spell::Hex } else { Spell::Dec }))
            } else {
                // inside brackets a sign is always written
                let body = spell_int(*off, match sp {
                    Spell::Dec | Spell::PlusDec | Spell::DecLead0 => Spell::PlusDec,
                    _ => Spell::PlusHex,
                });
                format!("[r{r}{body}]")
            }
        }
    }
}

/// Render an instruction (own canonical syntax: explicit widths, decimal numbers).
pub fn render(i: &I, hi: Option<i32>) -> Option<String> {
    let m = mnemonic(i)?;
    let k = kind(i.opc)?;
    Some(match k {
        Kind::LdAbs(_) => format!("{m} {}", i.imm),
        Kind::LdInd(_) => format!("{m} r{}, {}", i.src, i.imm),
        Kind::LdDw => {
            let v = (i.imm as u32 as u64) | ((hi.unwrap_or(0) as u32 as u64) << 32);
            format!("{m} r{}, {:#x}", i.dst, v)
        }
        Kind::Ldx(_) => format!("{m} r{}, [r{}{:+}]", i.dst, i.src, i.off),
        Kind::St(_) => format!("{m} [r{}{:+}], {}", i.dst, i.off, i.imm),
        Kind::Stx(_) => format!("{m} [r{}{:+}], r{}", i.dst, i.off, i.src),
        Kind::Xadd(_) => return None,
        Kind::Alu { reg, .. } => {
            if reg {
                format!("{m} r{}, r{}", i.dst, i.src)
            } else {
                format!("{m} r{}, {}", i.dst, i.imm)
            }
        }
        Kind::Neg { .. } => format!("{m} r{}", i.dst),
        Kind::End { .. } => format!("{m} r{}", i.dst),
        Kind::Ja => format!("{m} {:+}", i.off),
        Kind::Jcc { reg, .. } => {
            if reg {
                format!("{m} r{}, r{}, {:+}", i.dst, i.src, i.off)
            } else {
                format!("{m} r{}, {}, {:+}", i.dst, i.imm, i.off)
            }
        }
        Kind::Call => format!("{m} {}", i.imm),
        Kind::Exit => m,
    })
}

// ------------------------------------------------------------------------------------------
// Parsing of one printed instruction (for checking disassembler text)

fn parse_num(s: &str) -> Option<i128> {
    let (neg, rest) = if let Some(r) = s.strip_prefix('-') {
        (true, r)
    } else if let Some(r) = s.strip_prefix('+') {
        (false, r)
    } else {
        (false, s)
    };
    if rest.is_empty() {
        return None;
    }
    let v: i128 = if let Some(h) = rest.strip_prefix("0x") {
        if h.is_empty() || h.len() > 16 || !h.bytes().all(|c| c.is_ascii_hexdigit()) {
            return None;
        }
        i128::from_str_radix(h, 16).ok()?
    } else {
        if rest.len() > 20 || !rest.bytes().all(|c| c.is_ascii_digit()) {
            return None;
        }
        rest.parse::<i128>().ok()?
    };
    Some(if neg { -v } else { v })
}

fn parse_reg(s: &str) -> Option<i128> {
    let d = s.strip_prefix('r')?;
    if d.is_empty() || d.len() > 3 || !d.bytes().all(|c| c.is_ascii_digit()) {
        return None;
    }
    d.parse::<i128>().ok()
}

pub fn parse_operand(s: &str) -> Option<Op> {
    let s = s.trim();
    if let Some(inner) = s.strip_prefix('[') {
        let inner = inner.strip_suffix(']')?;
        let pos = inner.find(|c| c == '+' || c == '-');
        return match pos {
            None => Some(Op::M(parse_reg(inner)?, 0)),
            Some(p) => Some(Op::M(parse_reg(&inner[..p])?, parse_num(&inner[p..])?)),
        };
    }
    if s.starts_with('r') {
        return Some(Op::R(parse_reg(s)?));
    }
    Some(Op::N(parse_num(s)?))
}

/// Split "name op, op, op" into name and operands.
pub fn parse_line(s: &str) -> Option<(String, Vec<Op>)> {
    let s = s.trim();
    let (name, rest) = match s.find(char::is_whitespace) {
        Some(p) => (&s[..p], s[p..].trim()),
        None => (s, ""),
    };
    if name.is_empty() || !name.bytes().all(|c| c.is_ascii_alphanumeric() || c == b'_') {
        return None;
    }
    let mut ops = vec![];
    if !rest.is_empty() {
        for part in rest.split(',') {
            ops.push(parse_operand(part)?);
        }
    }
    Some((name.to_string(), ops))
}

/// All mnemonic spellings the assembler syntax has for this instruction.
pub fn accepted_names(i: &I) -> Vec<String> {
    let Some(k) = kind(i.opc) else { return vec![] };
    let canon = mnemonic(i).unwrap();
    match k {
        Kind::Alu { op, is64: true, .. } => vec![canon, alu_name(op).to_string()],
        Kind::Neg { is64: true } => vec![canon, "neg".to_string()],
        _ => vec![canon],
    }
}
