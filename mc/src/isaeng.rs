//! Engine `isa`: transition-conformance of the reference eBPF machine against the interpreter
//! (C01), the x86-64 JIT (C03) and Cranelift (C04). Layers: 1 single transitions with full
//! register frame, 2 sequences, 3 control-flow skeletons, 4 distance.

use crate::common::*;
use crate::isa::{self, Kind, I};
use crate::refmodel::{self, Cell, End, Machine, Region, Val};
use crate::vm::{self, AnyVm, Buf, Eng, Out, VmKind};
use serde_json::{json, Value};

pub const GATHER_ID: u32 = 1;

// ------------------------------------------------------------------------------------------
// generic comparison of one execution against the model

pub struct Obs {
    pub out: Out,
    pub packet: Vec<u8>,
    pub mbuff: Vec<u8>,
}

fn first_cell_mismatch(cells: &[Cell], bytes: &[u8]) -> Option<usize> {
    for (k, c) in cells.iter().enumerate() {
        if let Cell::Def(b) = c {
            if k >= bytes.len() || bytes[k] != *b {
                return Some(k);
            }
        }
    }
    None
}

/// C01: compare the interpreter's observation with the model. Returns (symptom, detail).
pub fn cmp_with_model(end: &End, m: &Machine, o: &Obs) -> Option<(String, String)> {
    if let Out::Panic(p) = &o.out {
        return Some((panic_class(p), format!("panicked: {p}")));
    }
    match end {
        End::Ret(Val::Int(v)) => match &o.out {
            Out::Ok(x) if x == v => {}
            Out::Ok(x) => return Some(("value-mismatch".into(), format!("returned {x:#x}, the ISA gives {v:#x}"))),
            Out::Err(e) if o.out.is_budget() => return Some(("no-termination".into(), format!("did not terminate within the budget although the program terminates after {} steps ({e})", m.steps))),
            Out::Err(e) => return Some(("err-instead-of-ok".into(), format!("returned Err({e:?}), the ISA gives {v:#x}"))),
            Out::Panic(_) => unreachable!(),
        },
        End::Ret(_) => return None, // result undefined / address: outside the claim
        End::Err(k) => match &o.out {
            Out::Ok(x) => return Some((format!("ok-instead-of-err:{k:?}"), format!("returned {x:#x} where execution must stop with an error ({k:?})"))),
            _ => {}
        },
        End::OutOfClaim(_) | End::NoTermination | End::Malformed(_) => return None,
    }
    if let Some(k) = first_cell_mismatch(&m.packet, &o.packet) {
        return Some(("packet-mismatch".into(), format!("packet byte {k} is {:#04x}, the ISA gives {:?}", o.packet.get(k).copied().unwrap_or(0), m.packet[k])));
    }
    if !o.mbuff.is_empty() {
        if let Some(k) = first_cell_mismatch(&m.mbuff, &o.mbuff) {
            return Some(("mbuff-mismatch".into(), format!("metadata byte {k} is {:#04x}, the ISA gives {:?}", o.mbuff[k], m.mbuff[k])));
        }
    }
    None
}

/// C03/C04: compare a compiler's observation with the interpreter's, on the bytes the model
/// says are defined. Precondition: model End::Ret(Int) and interpreter Ok.
pub fn cmp_with_interp(m: &Machine, interp: &Obs, o: &Obs) -> Option<(String, String)> {
    let Out::Ok(iv) = interp.out else { return None };
    match &o.out {
        Out::Ok(x) if *x == iv => {}
        Out::Ok(x) => return Some(("value-mismatch".into(), format!("returned {x:#x}, the interpreter returned {iv:#x}"))),
        Out::Err(e) => return Some(("err-instead-of-ok".into(), format!("returned Err({e:?}), the interpreter returned {iv:#x}"))),
        Out::Panic(p) => return Some((panic_class(p), format!("panicked: {p}"))),
    }
    for (k, c) in m.packet.iter().enumerate() {
        if matches!(c, Cell::Def(_)) && o.packet[k] != interp.packet[k] {
            return Some(("packet-mismatch".into(), format!("packet byte {k} is {:#04x}, the interpreter left {:#04x}", o.packet[k], interp.packet[k])));
        }
    }
    if !o.mbuff.is_empty() && o.mbuff.len() == interp.mbuff.len() {
        for (k, c) in m.mbuff.iter().enumerate() {
            if matches!(c, Cell::Def(_)) && k < o.mbuff.len() && o.mbuff[k] != interp.mbuff[k] {
                return Some(("mbuff-mismatch".into(), format!("metadata byte {k} is {:#04x}, the interpreter left {:#04x}", o.mbuff[k], interp.mbuff[k])));
            }
        }
    }
    None
}

pub const QUIRK_SIG_CLASS: &str = "jmp64-imm";

/// Is the interpreter's observation exactly what the reference machine gives when unsigned
/// 64-bit comparisons zero-extend their immediate (the recorded finding)?
pub fn explained_by_zext(prog: &[I], kind: VmKind, pkt: &[u8], mb: &[u8], helpers: bool, max_steps: u64, o: &Obs) -> bool {
    let mut q = model_for(prog, kind, pkt, mb, helpers);
    q.quirk_zext_jmp_imm = true;
    q.max_steps = max_steps;
    let end = q.run();
    matches!(end, End::Ret(Val::Int(_)) | End::Err(_)) && cmp_with_model(&end, &q, o).is_none()
}

/// A loaded program on a VM with guard-page buffers: run it on an engine for a given input.
pub struct Runner<'a> {
    pub vm: AnyVm<'a>,
    pub kind: VmKind,
    pub pkt: Buf,
    pub mb: Buf,
}

pub fn gather_helper(a: u64, b: u64, c: u64, d: u64, e: u64) -> u64 {
    (a << 32) | (b << 24) | (c << 16) | (d << 8) | e
}

impl<'a> Runner<'a> {
    pub fn new(kind: VmKind, bytes: &'a [u8], pkt_len: usize, mb_len: usize, helpers: bool) -> Result<Runner<'a>, String> {
        let mut vm = AnyVm::new(kind, Some(bytes))?;
        if helpers {
            vm.register_helper(GATHER_ID, gather_helper)?;
        }
        Ok(Runner { vm, kind, pkt: Buf::new(pkt_len, 0), mb: Buf::new(mb_len, 0) })
    }
    pub fn run(&mut self, eng: Eng, packet: &[u8], mbuff: &[u8], budget: u64) -> Obs {
        self.pkt.fill(packet);
        if self.mb.len == mbuff.len() {
            self.mb.fill(mbuff);
        }
        let mem = if packet.is_empty() { (self.pkt.ptr, 0) } else { self.pkt.raw() };
        let mb = if matches!(self.kind, VmKind::Mbuff) { self.mb.raw() } else { vm::empty_raw() };
        if eng == Eng::Interp {
            rbpf::verif_hooks::set_insn_budget(Some(budget));
        }
        let out = self.vm.exec_out(eng, mem, mb);
        if eng == Eng::Interp {
            rbpf::verif_hooks::set_insn_budget(None);
        }
        Obs { out, packet: self.pkt.bytes().to_vec(), mbuff: if matches!(self.kind, VmKind::Mbuff) { self.mb.bytes().to_vec() } else { vec![] } }
    }
}

pub fn model_for<'p>(prog: &'p [I], kind: VmKind, packet: &[u8], mbuff: &[u8], helpers: bool) -> Machine<'p> {
    let mut m = Machine::new(prog, kind, packet, mbuff);
    if helpers {
        m.helpers.insert(GATHER_ID, refmodel::h_gather_bytes as refmodel::ModelHelper);
    }
    m
}

/// Run a group in-process (interpreter) or in a forked child (compiled code), absorbing the
/// child's counters; a child killed by a signal is a violation of the group.
pub fn run_group(s: &mut Sink, eng: Eng, class: &str, replay: &Value, f: impl FnOnce(&mut Sink)) {
    if eng == Eng::Interp {
        f(s);
        return;
    }
    let mut cs = s.child();
    let end = in_child(60, move || {
        f(&mut cs);
        serde_json::to_vec(&cs.finish()).unwrap()
    });
    match end {
        ChildEnd::Ok(b) => match serde_json::from_slice::<Value>(&b) {
            Ok(v) => s.absorb(&v),
            Err(_) => s.violation(&format!("{}/{class}/child-protocol", eng.name()), "child returned unparsable data".into(), replay.clone()),
        },
        ChildEnd::Signal(sig) => {
            s.count("groups_crashed", 1);
            s.violation(&format!("{}/{class}/crash:{}", eng.name(), signame(sig)), format!("process running the compiled program died with {}", signame(sig)), replay.clone());
        }
        ChildEnd::Exit(c) => s.violation(&format!("{}/{class}/child-exit:{c}", eng.name()), format!("child exited with status {c}"), replay.clone()),
    }
}

// ------------------------------------------------------------------------------------------
// Layer 1

pub const PKT_LEN: usize = 256;
const IN0: i16 = 0;
const DUMP0: i16 = 80;
const MARK: i16 = 160;
const SCR0: usize = 168;
const SCR1: usize = 232;

#[derive(Clone, Copy, Debug, PartialEq, Eq)]
pub enum L1Kind {
    Alu,
    Lddw,
    Jmp,
    Mem,
    StackMem,
    LdPkt,
    Call,
}

#[derive(Clone, Copy, Debug)]
pub struct L1 {
    pub kind: L1Kind,
    pub i: I,
    /// for Lddw: the high half
    pub hi: i32,
    pub b: u8,
    /// Mem: scratch offset of the effective address
    pub x: i32,
}

impl L1 {
    pub fn to_json(&self) -> Value {
        json!({"kind":"isa-l1","l1": format!("{:?}", self.kind), "insn":[self.i.opc,self.i.dst,self.i.src,self.i.off,self.i.imm], "hi": self.hi, "b": self.b, "x": self.x})
    }
    pub fn from_json(v: &Value) -> L1 {
        let f = v["insn"].as_array().unwrap();
        let kind = match v["l1"].as_str().unwrap() {
            "Alu" => L1Kind::Alu,
            "Lddw" => L1Kind::Lddw,
            "Jmp" => L1Kind::Jmp,
            "Mem" => L1Kind::Mem,
            "StackMem" => L1Kind::StackMem,
            "LdPkt" => L1Kind::LdPkt,
            _ => L1Kind::Call,
        };
        L1 {
            kind,
            i: I::new(f[0].as_u64().unwrap() as u8, f[1].as_u64().unwrap() as u8, f[2].as_u64().unwrap() as u8, f[3].as_i64().unwrap() as i16, f[4].as_i64().unwrap() as i32),
            hi: v["hi"].as_i64().unwrap() as i32,
            b: v["b"].as_u64().unwrap() as u8,
            x: v["x"].as_i64().unwrap() as i32,
        }
    }
    pub fn class(&self) -> String {
        let m = isa::mnemonic(&self.i).unwrap_or_default();
        let form = match isa::kind(self.i.opc) {
            Some(Kind::Alu { reg, .. }) | Some(Kind::Jcc { reg, .. }) => {
                if reg {
                    "-reg"
                } else {
                    "-imm"
                }
            }
            _ => "",
        };
        let st = if self.kind == L1Kind::StackMem { "-stack" } else { "" };
        format!("{m}{form}{st}")
    }
}

pub fn pick_base(d: u8, s: u8, nth: usize) -> u8 {
    let cands = [6u8, 7, 8, 9, 2, 3, 4];
    cands.iter().copied().filter(|c| *c != d && *c != s).nth(nth).unwrap()
}

fn sentinel(i: usize) -> u64 {
    0x5e00_a5a5_5a5a_0000u64 | ((i as u64) << 48) | (i as u64 * 0x11)
}

fn prologue(b: u8) -> Vec<I> {
    let mut p = vec![isa::mov64r(b, 1)];
    for i in 0..=9u8 {
        if i != b {
            p.push(isa::ldxdw(i, b, IN0 + 8 * i as i16));
        }
    }
    p
}

fn epilogue(b: u8) -> Vec<I> {
    let mut p = vec![];
    for i in 0..=9u8 {
        if i != b {
            p.push(isa::stxdw(b, DUMP0 + 8 * i as i16, i));
        }
    }
    p.push(isa::mov64i(0, 0x600d));
    p.push(isa::EXIT);
    p
}

/// 16 bytes of defining stores around a stack offset, and the reload of the slot(s).
fn stack_slots(off: i16, w: i16) -> Vec<i16> {
    let lo = (off as i32).div_euclid(8) * 8;
    let hi = ((off + w - 1) as i32).div_euclid(8) * 8;
    let mut v = vec![lo as i16];
    if hi != lo {
        v.push(hi as i16);
    }
    v
}

pub fn l1_program(c: &L1) -> Vec<I> {
    let b = c.b;
    let i = c.i;
    let mut p = prologue(b);
    match c.kind {
        L1Kind::Alu | L1Kind::LdPkt | L1Kind::Call => {
            p.push(i);
            if i.src == 10 && matches!(isa::kind(i.opc), Some(Kind::Alu { op: isa::AluOp::Add | isa::AluOp::Mov, is64: true, reg: true })) {
                p.push(isa::sub64r(i.dst, 10));
            }
        }
        L1Kind::Lddw => {
            p.push(i);
            p.push(I::new(0, 0, 0, 0, c.hi));
        }
        L1Kind::Jmp => {
            let mut j = i;
            j.off = 2;
            p.push(j);
            p.push(isa::stw(b, MARK, 1));
            p.push(isa::ja(1));
            p.push(isa::stw(b, MARK, 2));
        }
        L1Kind::Mem => {
            let k = isa::kind(i.opc).unwrap();
            let areg = if matches!(k, Kind::Ldx(_)) { i.src } else { i.dst };
            p.push(isa::mov64r(areg, b));
            p.push(isa::add64i(areg, c.x - i.off as i32));
            p.push(i);
        }
        L1Kind::StackMem => {
            let k = isa::kind(i.opc).unwrap();
            let w = match k {
                Kind::Ldx(w) | Kind::St(w) | Kind::Stx(w) | Kind::Xadd(w) => w as i16,
                _ => 8,
            };
            let slots = stack_slots(i.off, w);
            for (n, sl) in slots.iter().enumerate() {
                p.push(isa::stdw(10, *sl, 0x7a000000 + 0x01020304 * (n as i32 + 1)));
            }
            p.push(i);
            if !matches!(k, Kind::Ldx(_)) {
                // reload the slots into registers that are then dumped
                let mut t = (0..=9u8).filter(|r| *r != b && *r != i.src);
                for sl in slots {
                    p.push(isa::ldxdw(t.next().unwrap(), 10, sl));
                }
            }
        }
    }
    p.extend(epilogue(b));
    p
}

/// Operand-value inputs (a for dst, b for src) of a layer-1 group.
pub fn l1_inputs(c: &L1) -> Vec<(u64, u64)> {
    let k = isa::kind(c.i.opc).unwrap();
    let two = match k {
        Kind::Alu { reg, .. } | Kind::Jcc { reg, .. } => reg && c.i.src != c.i.dst && c.i.src != 10,
        Kind::Stx(_) | Kind::Xadd(_) => false,
        _ => false,
    };
    match c.kind {
        L1Kind::LdPkt => {
            if matches!(k, Kind::LdInd(w) if w > 0) {
                let w = match k {
                    Kind::LdInd(w) => w as u64,
                    _ => 1,
                };
                let imm = c.i.imm as u32 as u64;
                let len = PKT_LEN as u64;
                let mut v = vec![0u64, 1, 8, u64::MAX, len, len - w, (len - w).wrapping_sub(imm), (len - w + 1).wrapping_sub(imm), 0u64.wrapping_sub(imm), 1u64 << 63, u64::MAX - 7];
                v.sort();
                v.dedup();
                v.into_iter().map(|x| (0x1111, x)).collect()
            } else {
                vec![(0x1111, 0x2222)]
            }
        }
        L1Kind::Mem | L1Kind::StackMem => match k {
            Kind::Stx(_) | Kind::Xadd(_) => V64.iter().map(|b| (0, *b)).collect(),
            _ => vec![(0x0123456789abcdef, 0xfedcba9876543210)],
        },
        L1Kind::Lddw => vec![(0x1111, 0x2222)],
        L1Kind::Call => {
            let mut v = vec![];
            for a in V64 {
                v.push((a, 0x33));
            }
            v
        }
        _ => {
            if two {
                let mut v = Vec::with_capacity(961);
                for a in V64 {
                    for b in V64 {
                        v.push((a, b));
                    }
                }
                v
            } else {
                V64.iter().map(|a| (*a, *a)).collect()
            }
        }
    }
}

fn l1_packet(c: &L1, a: u64, bval: u64) -> Vec<u8> {
    let mut pkt = vec![0u8; PKT_LEN];
    for i in 0..10usize {
        let v = if c.kind == L1Kind::Call && (1..=5).contains(&i) {
            // argument positions get distinguishable values derived from a
            a.rotate_left(i as u32 * 8) ^ i as u64
        } else if i == c.i.src as usize && !(matches!(c.kind, L1Kind::Alu | L1Kind::Jmp) && c.i.src == c.i.dst) && uses_src(c) {
            bval
        } else if i == c.i.dst as usize && uses_dst(c) {
            a
        } else {
            sentinel(i)
        };
        pkt[8 * i..8 * i + 8].copy_from_slice(&v.to_le_bytes());
    }
    for k in SCR0..SCR1 {
        pkt[k] = (k * 7 + 3) as u8;
    }
    for k in SCR1..PKT_LEN {
        pkt[k] = 0x99;
    }
    pkt
}

fn uses_src(c: &L1) -> bool {
    isa::kind(c.i.opc).map_or(false, |k| isa::uses(k).1) && !matches!(isa::kind(c.i.opc), Some(Kind::Call))
}
fn uses_dst(c: &L1) -> bool {
    isa::kind(c.i.opc).map_or(false, |k| isa::uses(k).0)
}

/// Locate a packet mismatch for the signature.
fn l1_symptom(c: &L1, k: usize) -> String {
    if (80..160).contains(&k) {
        let r = (k - 80) / 8;
        let target = match isa::kind(c.i.opc) {
            Some(Kind::LdAbs(_)) | Some(Kind::LdInd(_)) | Some(Kind::Call) => 0,
            _ => c.i.dst as usize,
        };
        if r == target {
            if (k - 80) % 8 >= 4 {
                "dst-upper32-mismatch".into()
            } else {
                "dst-mismatch".into()
            }
        } else {
            format!("reg-clobbered:r{r}")
        }
    } else if (160..168).contains(&k) {
        "branch-mismatch".into()
    } else if (SCR0..SCR1).contains(&k) {
        "store-mismatch".into()
    } else {
        "packet-mismatch".into()
    }
}

/// Run one layer-1 group: one program, all operand inputs. `prop_eng` is the engine under
/// test; the interpreter is always run (it is C01's subject and C03/C04's oracle).
pub fn l1_group(s: &mut Sink, eng: Eng, c: &L1) {
    let prog = l1_program(c);
    let bytes = isa::enc(&prog);
    let class = c.class();
    let mut rp = c.to_json();
    rp["eng"] = json!(eng.name());
    let helpers = c.kind == L1Kind::Call;
    let mut r = match Runner::new(VmKind::Raw, &bytes, PKT_LEN, 0, helpers) {
        Ok(r) => r,
        Err(e) => {
            s.violation(&format!("verifier/{class}/rejects-template"), format!("the default verifier rejected a well-formed layer-1 program: {e}"), rp);
            return;
        }
    };
    if eng != Eng::Interp {
        match catch(|| r.vm.compile(eng)) {
            Ok(Ok(())) => {}
            Ok(Err(e)) => {
                s.violation(&format!("{}/{class}/compile-err", eng.name()), format!("compilation refused a verified program: {e}"), rp);
                return;
            }
            Err(p) => {
                s.violation(&format!("{}/{class}/compile-{}", eng.name(), panic_class(&p)), format!("compilation panicked: {p}"), rp);
                return;
            }
        }
    }
    let inputs = l1_inputs(c);
    for (a, b) in inputs {
        let pkt = l1_packet(c, a, b);
        let mut m = model_for(&prog, VmKind::Raw, &pkt, &[], helpers);
        let end = m.run();
        s.count("states", 1);
        s.count("transitions", m.steps);
        s.count("evaluations", 1);
        let defined = matches!(end, End::Ret(Val::Int(_)));
        match &end {
            End::Ret(Val::Int(_)) => s.outcome("ret", 1),
            End::Ret(_) => s.outcome("out-of-claim", 1),
            End::Err(_) => s.outcome("model-err", 1),
            End::OutOfClaim(_) => s.outcome("out-of-claim", 1),
            End::NoTermination => s.outcome("no-termination", 1),
            End::Malformed(w) => {
                s.violation(&format!("harness/{class}/malformed-template"), format!("reference machine: {w}"), rp.clone());
                return;
            }
        }
        let io = r.run(Eng::Interp, &pkt, &[], m.steps * 2 + 1000);
        let detail_in = || format!("dst r{} = {a:#x}, src r{} = {b:#x}", c.i.dst, c.i.src);
        if eng == Eng::Interp {
            s.count("traces_validated_against_impl", 1);
            if let Some((sym, det)) = cmp_with_model(&end, &m, &io) {
                if explained_by_zext(&prog, VmKind::Raw, &pkt, &[], helpers, 200_000, &io) {
                    s.violation(&format!("interp/{QUIRK_SIG_CLASS}/imm-zero-extended"), format!("{}: {det} [{}]", isa::listing(&[c.i]).join(""), detail_in()), rp.clone());
                } else {
                    let sym = if sym == "packet-mismatch" { l1_symptom(c, first_cell_mismatch(&m.packet, &io.packet).unwrap()) } else { sym };
                    s.violation(&format!("interp/{class}/{sym}"), format!("{}: {det} [{}]", isa::listing(&[c.i]).join(""), detail_in()), rp.clone());
                }
            }
            if defined && (m.packet[80..168] != refmodel_cells(&pkt)[80..168] || m.packet[SCR0..SCR1] != refmodel_cells(&pkt)[SCR0..SCR1]) {
                s.count("distinct_nontrivial", 1);
            }
        } else if defined && matches!(io.out, Out::Ok(_)) {
            let o = r.run(eng, &pkt, &[], 0);
            s.count("traces_validated_against_impl", 1);
            s.count("distinct_nontrivial", 1);
            if let Some((sym, det)) = cmp_with_interp(&m, &io, &o) {
                if cmp_with_model(&end, &m, &o).is_none() && explained_by_zext(&prog, VmKind::Raw, &pkt, &[], helpers, 200_000, &io) {
                    // the compiled code follows the ISA; the interpreter (the oracle of this
                    // property) is the one that deviates, in the recorded way
                    s.violation(&format!("{}/{QUIRK_SIG_CLASS}/interpreter-zero-extends-imm", eng.name()), format!("{}: {det} [{}]", isa::listing(&[c.i]).join(""), detail_in()), rp.clone());
                    continue;
                }
                let sym = if sym == "packet-mismatch" {
                    let k = (0..PKT_LEN).find(|k| matches!(m.packet[*k], Cell::Def(_)) && o.packet[*k] != io.packet[*k]).unwrap();
                    l1_symptom(c, k)
                } else {
                    sym
                };
                s.violation(&format!("{}/{class}/{sym}", eng.name()), format!("{}: {det} [{}]", isa::listing(&[c.i]).join(""), detail_in()), rp.clone());
            }
            if !r.pkt.canary_ok() {
                s.violation(&format!("{}/{class}/wrote-outside-packet", eng.name()), format!("{}: bytes next to the packet were modified [{}]", isa::listing(&[c.i]).join(""), detail_in()), rp.clone());
                r.pkt.reset_canary();
            }
        } else {
            s.outcome("not-compared(interpreter-not-ok-or-undefined)", 1);
        }
    }
    s.sample(&format!("l1-{:?}", c.kind), || json!({"descriptor": rp, "program": isa::listing(&prog)}));
}

fn refmodel_cells(b: &[u8]) -> Vec<Cell> {
    b.iter().map(|x| Cell::Def(*x)).collect()
}

/// Enumerate all layer-1 groups.
pub fn l1_enumerate(thorough: bool) -> Vec<L1> {
    let mut v = vec![];
    let nb = if thorough { 2 } else { 1 };
    let mk = |kind, i: I, hi: i32, b: u8, x: i32| L1 { kind, i, hi, b, x };
    for opc in isa::all_supported() {
        let k = isa::kind(opc).unwrap();
        match k {
            Kind::Alu { reg, .. } => {
                for d in 0..=9u8 {
                    if reg {
                        for sr in 0..=10u8 {
                            for n in 0..nb {
                                v.push(mk(L1Kind::Alu, I::new(opc, d, sr, 0, 0), 0, pick_base(d, sr, n), 0));
                            }
                        }
                    } else {
                        for imm in I32S {
                            v.push(mk(L1Kind::Alu, I::new(opc, d, 0, 0, imm), 0, pick_base(d, d, (d as usize + (imm as u32 as usize)) % 2), 0));
                        }
                    }
                }
            }
            Kind::Neg { .. } => {
                for d in 0..=9u8 {
                    for n in 0..nb {
                        v.push(mk(L1Kind::Alu, I::new(opc, d, 0, 0, 0), 0, pick_base(d, d, n), 0));
                    }
                }
            }
            Kind::End { .. } => {
                for d in 0..=9u8 {
                    for w in [16, 32, 64] {
                        v.push(mk(L1Kind::Alu, I::new(opc, d, 0, 0, w), 0, pick_base(d, d, 0), 0));
                    }
                }
            }
            Kind::LdDw => {
                for d in 0..=9u8 {
                    for lo in I32S {
                        for hi in I32S {
                            v.push(mk(L1Kind::Lddw, I::new(opc, d, 0, 0, lo), hi, pick_base(d, d, 0), 0));
                        }
                    }
                }
            }
            Kind::Ja => v.push(mk(L1Kind::Jmp, I::new(opc, 0, 0, 0, 0), 0, 6, 0)),
            Kind::Jcc { reg, .. } => {
                for d in 0..=9u8 {
                    if reg {
                        for sr in 0..=9u8 {
                            for n in 0..nb {
                                v.push(mk(L1Kind::Jmp, I::new(opc, d, sr, 0, 0), 0, pick_base(d, sr, n), 0));
                            }
                        }
                    } else {
                        for imm in I32S {
                            v.push(mk(L1Kind::Jmp, I::new(opc, d, 0, 0, imm), 0, pick_base(d, d, 0), 0));
                        }
                    }
                }
            }
            Kind::Ldx(w) | Kind::St(w) | Kind::Stx(w) | Kind::Xadd(w) => {
                let w = w as i32;
                let xs: Vec<i32> = if matches!(k, Kind::Xadd(_)) { vec![168, 224 - 8 + w.max(0) * 0 + 0, 176] } else { vec![168, 169, 175, 224] };
                for d in 0..=9u8 {
                    for sr in 0..=9u8 {
                        // immediate stores ignore src; loads from [src]; keep the product small where a field is unused
                        if matches!(k, Kind::St(_)) && sr != 0 {
                            continue;
                        }
                        for off in O16 {
                            for x in &xs {
                                if x + w > SCR1 as i32 {
                                    continue;
                                }
                                if !thorough && (d + sr + (*x as u8)) % 2 == 1 && off != 0 {
                                    continue;
                                }
                                let imm = if matches!(k, Kind::St(_)) { 0x81c2d3e4u32 as i32 } else { 0 };
                                let areg = if matches!(k, Kind::Ldx(_)) { sr } else { d };
                                let _ = areg;
                                v.push(mk(L1Kind::Mem, I::new(opc, d, sr, off, imm), 0, pick_base(d, sr, 0), *x));
                            }
                        }
                    }
                }
                // store immediates over the immediate alphabet
                if matches!(k, Kind::St(_)) {
                    for imm in I32S {
                        v.push(mk(L1Kind::Mem, I::new(opc, 3, 0, -8, imm), 0, 6, 169));
                    }
                }
                // the stack through r10
                for off in [-512i16, -511, -505, -256, -129, -128, -16, -9, -8, -4, -2, -1] {
                    if off as i32 + w > 0 || (matches!(k, Kind::Xadd(_)) && off as i32 % w != 0) {
                        continue;
                    }
                    for r in 0..=9u8 {
                        match k {
                            Kind::Ldx(_) => v.push(mk(L1Kind::StackMem, I::new(opc, r, 10, off, 0), 0, pick_base(r, r, 0), 0)),
                            Kind::St(_) => {
                                if r == 0 {
                                    v.push(mk(L1Kind::StackMem, I::new(opc, 10, 0, off, 0x55667788), 0, 6, 0))
                                }
                            }
                            _ => v.push(mk(L1Kind::StackMem, I::new(opc, 10, r, off, 0), 0, pick_base(r, r, 0), 0)),
                        }
                    }
                }
            }
            Kind::LdAbs(w) | Kind::LdInd(w) => {
                let w = w as i32;
                let len = PKT_LEN as i32;
                for imm in [0, 1, 7, 8, len - 8, len - w, len - w + 1, len, 0x7fffffff] {
                    for dstf in [0u8, 3] {
                        for sr in if matches!(k, Kind::LdInd(_)) { vec![0u8, 1, 5, 9] } else { vec![0u8] } {
                            v.push(mk(L1Kind::LdPkt, I::new(opc, dstf, sr, 0, imm), 0, pick_base(dstf, sr, 0), 0));
                        }
                    }
                }
            }
            Kind::Call => {
                for dstf in [0u8, 3] {
                    v.push(mk(L1Kind::Call, I::new(opc, dstf, 0, 0, GATHER_ID as i32), 0, 6, 0));
                    v.push(mk(L1Kind::Call, I::new(opc, dstf, 0, 0, GATHER_ID as i32), 0, 9, 0));
                }
            }
            Kind::Exit => {}
        }
    }
    v
}

pub fn run_layer1(s: &mut Sink, eng: Eng, g: &mut u64) {
    let thorough = s.tier == Tier::Thorough;
    let all = l1_enumerate(thorough);
    s.meta.insert("layer1_groups".into(), json!(all.len()));
    // groups are handed to shards in blocks of 8 consecutive descriptors
    for chunk in all.chunks(8) {
        let idx = *g;
        *g += 1;
        if !s.take(idx) {
            continue;
        }
        if s.expired() {
            s.cut("layer 1: single transitions");
            return;
        }
        for c in chunk {
            let mut rp = c.to_json();
            rp["eng"] = json!(eng.name());
            s.mark(idx, &format!("{}/{}", eng.name(), c.class()), &rp);
            let cc = *c;
            run_group(s, eng, &c.class(), &rp, |cs| l1_group(cs, eng, &cc));
        }
    }
    s.done("layer 1: single transitions");
}

pub fn replay_l1(v: &Value) -> Vec<String> {
    let c = L1::from_json(v);
    let eng = Eng::parse(v["eng"].as_str().unwrap_or("interp"));
    let mut s = Sink::new("replay", Tier::Quick, 0, 1, None, None, 3600);
    let rp = c.to_json();
    run_group(&mut s, eng, &c.class(), &rp, |cs| l1_group(cs, eng, &c));
    let r = s.finish();
    r["violations"].as_array().unwrap().iter().map(|x| format!("{}: {}", x["sig"].as_str().unwrap(), x["detail"].as_str().unwrap())).collect()
}

// ------------------------------------------------------------------------------------------

pub fn run(s: &mut Sink, eng: Eng) {
    let thorough = s.tier == Tier::Thorough;
    s.meta.insert("alphabet".into(), json!({
        "V64": V64.len(), "I32": I32S.len(), "O16": O16.len(),
        "registers": "dst 0..9 x src 0..10 (every pair)",
        "layer1": "every supported opcode; ALU/JMP reg forms: all register pairs x V64^2; imm forms: all dst x I32 x V64; ldx/st/stx/xadd: dst x src x O16 x 4 scratch alignments + stack via r10; lddw: I32^2 halves; ldabs/ldind: boundary immediates and src values; helper call",
    }));
    s.meta.insert("bound".into(), json!({"layer1": "depth 1 (one transition, full register frame)", "tier": if thorough {"thorough"} else {"quick"}}));
    s.meta.insert("rule".into(), json!("cases = (program, input) pairs enumerated as Cartesian products of the alphabets; non-trivial = inside the claim (reference result defined) and the transition under test changed a register, memory or control flow; every case is a distinct product element"));
    s.meta.insert("assumptions".into(), json!(["reference eBPF machine in mc/src/refmodel.rs is the oracle for the interpreter; the interpreter is the oracle for the compilers where the model says the result is defined", "operand values outside V64 / immediates outside I32 / offsets outside O16 are not covered"]));
    let mut g = 0u64;
    run_layer1(s, eng, &mut g);
}
