//! Engine `isa`: transition-conformance of the reference eBPF machine against the interpreter
//! (C01), the x86-64 JIT (C03) and Cranelift (C04). Layers: 1 single transitions with full
//! register frame, 2 sequences, 3 control-flow skeletons, 4 distance.

use crate::common::*;
use crate::isa::{self, Kind, I};
use crate::refmodel::{self, Cell, End, Machine, Region, Val};
use crate::vm::{self, AnyVm, Buf, Eng, Out, VmKind};
use serde_json::{json, Value};

/// C03/C04 compare the compiled program with the interpreter; a compiler that refuses an ordinary
/// program computes nothing, which the checks report. Above this size (instructions) a refusal is
/// taken for a size limit of the back end - an error value, as C12 allows - and is not reported.
pub const COMPILE_MUST_SUCCEED_UP_TO: usize = 100_000;
pub const GATHER_ID: u32 = 1;
/// further keys the same helper is registered under: any u32 is a legal key (a negative immediate)
pub const GATHER_IDS_HIGH: [u32; 3] = [0x7fff_ffff, 0x8000_0001, 0xffff_fff0];

// ------------------------------------------------------------------------------------------
// generic comparison of one execution against the model

pub struct Obs {
    pub out: Out,
    pub packet: Vec<u8>,
    pub mbuff: Vec<u8>,
}

fn first_cell_mismatch(cells: &[Cell], bytes: &[u8]) -> Option<usize> {
    for (k, c) in cells.iter().enumerate() {
        if let Cell::Def(b) = c {
            if k >= bytes.len() || bytes[k] != *b {
                return Some(k);
            }
        }
    }
    None
}

/// C01: compare the interpreter's observation with the model. Returns (symptom, detail).
pub fn cmp_with_model(end: &End, m: &Machine, o: &Obs) -> Option<(String, String)> {
    if let Out::Panic(p) = &o.out {
        return Some((panic_class(p), format!("panicked: {p}")));
    }
    match end {
        End::Ret(Val::Int(v)) => match &o.out {
            Out::Ok(x) if x == v => {}
            Out::Ok(x) => return Some(("value-mismatch".into(), format!("returned {x:#x}, the ISA gives {v:#x}"))),
            Out::Err(e) if o.out.is_budget() => return Some(("no-termination".into(), format!("did not terminate within the budget although the program terminates after {} steps ({e})", m.steps))),
            Out::Err(e) => return Some(("err-instead-of-ok".into(), format!("returned Err({e:?}), the ISA gives {v:#x}"))),
            Out::Panic(_) => unreachable!(),
        },
        End::Ret(_) => return None, // result undefined / address: outside the claim
        End::Err(k) => match &o.out {
            Out::Ok(x) => return Some((format!("ok-instead-of-err:{k:?}"), format!("returned {x:#x} where execution must stop with an error ({k:?})"))),
            _ => {}
        },
        End::OutOfClaim(_) | End::NoTermination | End::Malformed(_) => return None,
    }
    if let Some(k) = first_cell_mismatch(&m.packet, &o.packet) {
        return Some(("packet-mismatch".into(), format!("packet byte {k} is {:#04x}, the ISA gives {:?}", o.packet.get(k).copied().unwrap_or(0), m.packet[k])));
    }
    if !o.mbuff.is_empty() {
        if let Some(k) = first_cell_mismatch(&m.mbuff, &o.mbuff) {
            return Some(("mbuff-mismatch".into(), format!("metadata byte {k} is {:#04x}, the ISA gives {:?}", o.mbuff[k], m.mbuff[k])));
        }
    }
    None
}

/// C03/C04: compare a compiler's observation with the interpreter's, on the bytes the model
/// says are defined. Precondition: model End::Ret(Int) and interpreter Ok.
pub fn cmp_with_interp(m: &Machine, interp: &Obs, o: &Obs) -> Option<(String, String)> {
    let Out::Ok(iv) = interp.out else { return None };
    match &o.out {
        Out::Ok(x) if *x == iv => {}
        Out::Ok(x) => return Some(("value-mismatch".into(), format!("returned {x:#x}, the interpreter returned {iv:#x}"))),
        Out::Err(e) => return Some(("err-instead-of-ok".into(), format!("returned Err({e:?}), the interpreter returned {iv:#x}"))),
        Out::Panic(p) => return Some((panic_class(p), format!("panicked: {p}"))),
    }
    for (k, c) in m.packet.iter().enumerate() {
        if matches!(c, Cell::Def(_)) && o.packet[k] != interp.packet[k] {
            return Some(("packet-mismatch".into(), format!("packet byte {k} is {:#04x}, the interpreter left {:#04x}", o.packet[k], interp.packet[k])));
        }
    }
    if !o.mbuff.is_empty() && o.mbuff.len() == interp.mbuff.len() {
        for (k, c) in m.mbuff.iter().enumerate() {
            if matches!(c, Cell::Def(_)) && k < o.mbuff.len() && o.mbuff[k] != interp.mbuff[k] {
                return Some(("mbuff-mismatch".into(), format!("metadata byte {k} is {:#04x}, the interpreter left {:#04x}", o.mbuff[k], interp.mbuff[k])));
            }
        }
    }
    None
}

pub const QUIRK_SIG_CLASS: &str = "jmp64-imm";

/// Is the interpreter's observation exactly what the reference machine gives when unsigned
/// 64-bit comparisons zero-extend their immediate (the recorded finding)?
pub fn explained_by_zext(prog: &[I], kind: VmKind, pkt: &[u8], mb: &[u8], helpers: bool, max_steps: u64, o: &Obs) -> bool {
    let mut q = model_for(prog, kind, pkt, mb, helpers);
    q.quirk_zext_jmp_imm = true;
    q.max_steps = max_steps;
    let end = q.run();
    matches!(end, End::Ret(Val::Int(_)) | End::Err(_)) && cmp_with_model(&end, &q, o).is_none()
}

/// A loaded program on a VM with guard-page buffers: run it on an engine for a given input.
pub struct Runner<'a> {
    pub vm: AnyVm<'a>,
    pub kind: VmKind,
    pub pkt: Buf,
    pub mb: Buf,
}

pub fn gather_helper(a: u64, b: u64, c: u64, d: u64, e: u64) -> u64 {
    (a << 32) | (b << 24) | (c << 16) | (d << 8) | e
}

impl<'a> Runner<'a> {
    pub fn new(kind: VmKind, bytes: &'a [u8], pkt_len: usize, mb_len: usize, helpers: bool) -> Result<Runner<'a>, String> {
        let mut vm = AnyVm::new(kind, Some(bytes))?;
        if helpers {
            vm.register_helper(GATHER_ID, gather_helper)?;
            for id in GATHER_IDS_HIGH {
                vm.register_helper(id, gather_helper)?;
            }
        }
        Ok(Runner { vm, kind, pkt: Buf::new(pkt_len, 0), mb: Buf::new(mb_len, 0) })
    }
    pub fn run(&mut self, eng: Eng, packet: &[u8], mbuff: &[u8], budget: u64) -> Obs {
        self.pkt.fill(packet);
        if self.mb.len == mbuff.len() {
            self.mb.fill(mbuff);
        }
        let mem = if packet.is_empty() { (self.pkt.ptr, 0) } else { self.pkt.raw() };
        let mb = if matches!(self.kind, VmKind::Mbuff) { self.mb.raw() } else { vm::empty_raw() };
        if eng == Eng::Interp {
            rbpf::verif_hooks::set_insn_budget(Some(budget));
        }
        let out = self.vm.exec_out(eng, mem, mb);
        if eng == Eng::Interp {
            rbpf::verif_hooks::set_insn_budget(None);
        }
        Obs { out, packet: self.pkt.bytes().to_vec(), mbuff: if matches!(self.kind, VmKind::Mbuff) { self.mb.bytes().to_vec() } else { vec![] } }
    }
}

pub fn model_for<'p>(prog: &'p [I], kind: VmKind, packet: &[u8], mbuff: &[u8], helpers: bool) -> Machine<'p> {
    let mut m = Machine::new(prog, kind, packet, mbuff);
    if helpers {
        m.helpers.insert(GATHER_ID, refmodel::h_gather_bytes as refmodel::ModelHelper);
        for id in GATHER_IDS_HIGH {
            m.helpers.insert(id, refmodel::h_gather_bytes as refmodel::ModelHelper);
        }
    }
    m
}

/// Run a group in-process (interpreter) or in a forked child (compiled code), absorbing the
/// child's counters; a child killed by a signal is a violation of the group.
pub fn run_group(s: &mut Sink, eng: Eng, class: &str, replay: &Value, f: impl FnOnce(&mut Sink)) {
    if eng == Eng::Interp {
        f(s);
        return;
    }
    let mut cs = s.child();
    let end = in_child(60, move || {
        f(&mut cs);
        serde_json::to_vec(&cs.finish()).unwrap()
    });
    match end {
        ChildEnd::Ok(b) => match serde_json::from_slice::<Value>(&b) {
            Ok(v) => s.absorb(&v),
            Err(_) => s.violation(&format!("{}/{class}/child-protocol", eng.name()), "child returned unparsable data".into(), replay.clone()),
        },
        ChildEnd::Signal(sig) => {
            s.count("groups_crashed", 1);
            s.violation(&format!("{}/{class}/crash:{}", eng.name(), signame(sig)), format!("process running the compiled program died with {}", signame(sig)), replay.clone());
        }
        ChildEnd::Exit(c) => s.violation(&format!("{}/{class}/child-exit:{c}", eng.name()), format!("child exited with status {c}"), replay.clone()),
    }
}

// ------------------------------------------------------------------------------------------
// Layer 1

pub const PKT_LEN: usize = 256;
const IN0: i16 = 0;
const DUMP0: i16 = 80;
const MARK: i16 = 160;
const SCR0: usize = 168;
const SCR1: usize = 232;

#[derive(Clone, Copy, Debug, PartialEq, Eq)]
pub enum L1Kind {
    Alu,
    Lddw,
    Jmp,
    Mem,
    StackMem,
    LdPkt,
    Call,
}

#[derive(Clone, Copy, Debug)]
pub struct L1 {
    pub kind: L1Kind,
    pub i: I,
    /// for Lddw: the high half
    pub hi: i32,
    pub b: u8,
    /// Mem: scratch offset of the effective address
    pub x: i32,
}

impl L1 {
    pub fn to_json(&self) -> Value {
        json!({"kind":"isa-l1","l1": format!("{:?}", self.kind), "insn":[self.i.opc,self.i.dst,self.i.src,self.i.off,self.i.imm], "hi": self.hi, "b": self.b, "x": self.x})
    }
    pub fn from_json(v: &Value) -> L1 {
        let f = v["insn"].as_array().unwrap();
        let kind = match v["l1"].as_str().unwrap() {
            "Alu" => L1Kind::Alu,
            "Lddw" => L1Kind::Lddw,
            "Jmp" => L1Kind::Jmp,
            "Mem" => L1Kind::Mem,
            "StackMem" => L1Kind::StackMem,
            "LdPkt" => L1Kind::LdPkt,
            _ => L1Kind::Call,
        };
        L1 {
            kind,
            i: I::new(f[0].as_u64().unwrap() as u8, f[1].as_u64().unwrap() as u8, f[2].as_u64().unwrap() as u8, f[3].as_i64().unwrap() as i16, f[4].as_i64().unwrap() as i32),
            hi: v["hi"].as_i64().unwrap() as i32,
            b: v["b"].as_u64().unwrap() as u8,
            x: v["x"].as_i64().unwrap() as i32,
        }
    }
    pub fn class(&self) -> String {
        let m = isa::mnemonic(&self.i).unwrap_or_default();
        let form = match isa::kind(self.i.opc) {
            Some(Kind::Alu { reg, .. }) | Some(Kind::Jcc { reg, .. }) => {
                if reg {
                    "-reg"
                } else {
                    "-imm"
                }
            }
            _ => "",
        };
        let st = if self.kind == L1Kind::StackMem { "-stack" } else { "" };
        format!("{m}{form}{st}")
    }
}

pub fn pick_base(d: u8, s: u8, nth: usize) -> u8 {
    let cands = [6u8, 7, 8, 9, 2, 3, 4];
    cands.iter().copied().filter(|c| *c != d && *c != s).nth(nth).unwrap()
}

fn sentinel(i: usize) -> u64 {
    0x5e00_a5a5_5a5a_0000u64 | ((i as u64) << 48) | (i as u64 * 0x11)
}

fn prologue(b: u8) -> Vec<I> {
    let mut p = vec![isa::mov64r(b, 1)];
    for i in 0..=9u8 {
        if i != b {
            p.push(isa::ldxdw(i, b, IN0 + 8 * i as i16));
        }
    }
    p
}

fn epilogue(b: u8) -> Vec<I> {
    let mut p = vec![];
    for i in 0..=9u8 {
        if i != b {
            p.push(isa::stxdw(b, DUMP0 + 8 * i as i16, i));
        }
    }
    p.push(isa::mov64i(0, 0x600d));
    p.push(isa::EXIT);
    p
}

/// 16 bytes of defining stores around a stack offset, and the reload of the slot(s).
fn stack_slots(off: i16, w: i16) -> Vec<i16> {
    let lo = (off as i32).div_euclid(8) * 8;
    let hi = ((off + w - 1) as i32).div_euclid(8) * 8;
    let mut v = vec![lo as i16];
    if hi != lo {
        v.push(hi as i16);
    }
    v
}

pub fn l1_program(c: &L1) -> Vec<I> {
    let b = c.b;
    let i = c.i;
    let mut p = prologue(b);
    match c.kind {
        L1Kind::Alu | L1Kind::LdPkt | L1Kind::Call => {
            p.push(i);
            if i.src == 10 && matches!(isa::kind(i.opc), Some(Kind::Alu { op: isa::AluOp::Add | isa::AluOp::Mov, is64: true, reg: true })) {
                p.push(isa::sub64r(i.dst, 10));
            }
        }
        L1Kind::Lddw => {
            p.push(i);
            p.push(I::new(0, 0, 0, 0, c.hi));
        }
        L1Kind::Jmp => {
            let mut j = i;
            j.off = 2;
            p.push(j);
            p.push(isa::stw(b, MARK, 1));
            p.push(isa::ja(1));
            p.push(isa::stw(b, MARK, 2));
        }
        L1Kind::Mem => {
            let k = isa::kind(i.opc).unwrap();
            let areg = if matches!(k, Kind::Ldx(_)) { i.src } else { i.dst };
            p.push(isa::mov64r(areg, b));
            p.push(isa::add64i(areg, c.x - i.off as i32));
            p.push(i);
        }
        L1Kind::StackMem => {
            let k = isa::kind(i.opc).unwrap();
            let w = match k {
                Kind::Ldx(w) | Kind::St(w) | Kind::Stx(w) | Kind::Xadd(w) => w as i16,
                _ => 8,
            };
            let slots = stack_slots(i.off, w);
            for (n, sl) in slots.iter().enumerate() {
                p.push(isa::stdw(10, *sl, 0x7a000000 + 0x01020304 * (n as i32 + 1)));
            }
            p.push(i);
            if !matches!(k, Kind::Ldx(_)) {
                // reload the slots into registers that are then dumped
                let mut t = (0..=9u8).filter(|r| *r != b && *r != i.src);
                for sl in slots {
                    p.push(isa::ldxdw(t.next().unwrap(), 10, sl));
                }
            }
        }
    }
    p.extend(epilogue(b));
    p
}

/// Operand-value inputs (a for dst, b for src) of a layer-1 group.
/// Dense small values and every power of two with its neighbours: operands for which a table, a
/// strength reduction or a special-cased shift count could go wrong between the boundary values.
pub fn dense_values() -> Vec<u64> {
    let mut v: Vec<u64> = (0..=70).collect();
    for k in 3..64u32 {
        v.extend([(1u64 << k) - 1, 1u64 << k, (1u64 << k) + 1]);
    }
    v.extend([u64::MAX, u64::MAX - 1, 0xffff_ffff_0000_0000, 0x5555_5555_5555_5555, 0xaaaa_aaaa_aaaa_aaaa, 0x0f0f_0f0f_f0f0_f0f0]);
    v.sort();
    v.dedup();
    v
}

pub fn dense_imms() -> Vec<i32> {
    let mut v: Vec<i32> = (-70..=70).collect();
    for k in 3..31u32 {
        for d in [-1i32, 0, 1] {
            v.push((1i32 << k) + d);
            v.push(-(1i32 << k) + d);
        }
    }
    v.extend([i32::MAX, i32::MIN, i32::MIN + 1, 0x5555_5555, 0x2aaa_aaaa, -0x5555_5556]);
    v.sort();
    v.dedup();
    v
}

pub fn l1_inputs(c: &L1) -> Vec<(u64, u64)> {
    let k = isa::kind(c.i.opc).unwrap();
    let two = match k {
        Kind::Alu { reg, .. } | Kind::Jcc { reg, .. } => reg && c.i.src != c.i.dst && c.i.src != 10,
        Kind::Stx(_) | Kind::Xadd(_) => false,
        _ => false,
    };
    match c.kind {
        L1Kind::LdPkt => {
            if matches!(k, Kind::LdInd(w) if w > 0) {
                let w = match k {
                    Kind::LdInd(w) => w as u64,
                    _ => 1,
                };
                let imm = c.i.imm as u32 as u64;
                let len = PKT_LEN as u64;
                let mut v = vec![0u64, 1, 8, u64::MAX, len, len - w, (len - w).wrapping_sub(imm), (len - w + 1).wrapping_sub(imm), 0u64.wrapping_sub(imm), 1u64 << 63, u64::MAX - 7];
                v.sort();
                v.dedup();
                v.into_iter().map(|x| (0x1111, x)).collect()
            } else {
                vec![(0x1111, 0x2222)]
            }
        }
        L1Kind::Mem | L1Kind::StackMem => match k {
            Kind::Stx(_) | Kind::Xadd(_) => V64.iter().map(|b| (0, *b)).collect(),
            _ => vec![(0x0123456789abcdef, 0xfedcba9876543210)],
        },
        L1Kind::Lddw => vec![(0x1111, 0x2222)],
        L1Kind::Call => {
            let mut v = vec![];
            for a in V64 {
                v.push((a, 0x33));
            }
            v
        }
        _ => {
            if two && c.x == 1 {
                // dense second operand against eight first operands
                let firsts = [1u64, 0xff, 0x8000_0000, 0xffff_ffff, 0x1_0000_0001, 0x8000_0000_0000_0000, u64::MAX, 0x0123_4567_89ab_cdef];
                let mut v = vec![];
                for b in dense_values() {
                    for a in firsts {
                        v.push((a, b));
                    }
                }
                v
            } else if two {
                let mut v = Vec::with_capacity(961);
                for a in V64 {
                    for b in V64 {
                        v.push((a, b));
                    }
                }
                v
            } else {
                V64.iter().map(|a| (*a, *a)).collect()
            }
        }
    }
}

pub fn l1_packet(c: &L1, a: u64, bval: u64) -> Vec<u8> {
    let mut pkt = vec![0u8; PKT_LEN];
    for i in 0..10usize {
        let v = if c.kind == L1Kind::Call && (1..=5).contains(&i) {
            // argument positions get distinguishable values derived from a
            a.rotate_left(i as u32 * 8) ^ i as u64
        } else if i == c.i.src as usize && !(matches!(c.kind, L1Kind::Alu | L1Kind::Jmp) && c.i.src == c.i.dst) && uses_src(c) {
            bval
        } else if i == c.i.dst as usize && uses_dst(c) {
            a
        } else {
            sentinel(i)
        };
        pkt[8 * i..8 * i + 8].copy_from_slice(&v.to_le_bytes());
    }
    for k in SCR0..SCR1 {
        pkt[k] = (k * 7 + 3) as u8;
    }
    for k in SCR1..PKT_LEN {
        pkt[k] = 0x99;
    }
    pkt
}

fn uses_src(c: &L1) -> bool {
    isa::kind(c.i.opc).map_or(false, |k| isa::uses(k).1) && !matches!(isa::kind(c.i.opc), Some(Kind::Call))
}
fn uses_dst(c: &L1) -> bool {
    isa::kind(c.i.opc).map_or(false, |k| isa::uses(k).0)
}

/// Locate a packet mismatch for the signature.
fn l1_symptom(c: &L1, k: usize) -> String {
    if (80..160).contains(&k) {
        let r = (k - 80) / 8;
        let target = match isa::kind(c.i.opc) {
            Some(Kind::LdAbs(_)) | Some(Kind::LdInd(_)) | Some(Kind::Call) => 0,
            _ => c.i.dst as usize,
        };
        if r == target {
            if (k - 80) % 8 >= 4 {
                "dst-upper32-mismatch".into()
            } else {
                "dst-mismatch".into()
            }
        } else {
            format!("reg-clobbered:r{r}")
        }
    } else if (160..168).contains(&k) {
        "branch-mismatch".into()
    } else if (SCR0..SCR1).contains(&k) {
        "store-mismatch".into()
    } else {
        "packet-mismatch".into()
    }
}

/// Run one layer-1 group: one program, all operand inputs. `prop_eng` is the engine under
/// test; the interpreter is always run (it is C01's subject and C03/C04's oracle).
pub fn l1_group(s: &mut Sink, eng: Eng, c: &L1) {
    let prog = l1_program(c);
    let bytes = isa::enc(&prog);
    let class = c.class();
    let mut rp = c.to_json();
    rp["eng"] = json!(eng.name());
    let helpers = c.kind == L1Kind::Call;
    let mut r = match Runner::new(VmKind::Raw, &bytes, PKT_LEN, 0, helpers) {
        Ok(r) => r,
        Err(e) => {
            s.violation(&format!("verifier/{class}/rejects-template"), format!("the default verifier rejected a well-formed layer-1 program: {e}"), rp);
            return;
        }
    };
    if eng != Eng::Interp {
        match catch(|| r.vm.compile(eng)) {
            Ok(Ok(())) => {}
            Ok(Err(e)) => {
                s.violation(&format!("{}/{class}/compile-err", eng.name()), format!("compilation refused a verified program: {e}"), rp);
                return;
            }
            Err(p) => {
                s.violation(&format!("{}/{class}/compile-{}", eng.name(), panic_class(&p)), format!("compilation panicked: {p}"), rp);
                return;
            }
        }
    }
    let inputs = l1_inputs(c);
    for (a, b) in inputs {
        let pkt = l1_packet(c, a, b);
        let mut m = model_for(&prog, VmKind::Raw, &pkt, &[], helpers);
        let end = m.run();
        s.count("states", 1);
        s.count("transitions", m.steps);
        s.count("evaluations", 1);
        let defined = matches!(end, End::Ret(Val::Int(_)));
        match &end {
            End::Ret(Val::Int(_)) => s.outcome("ret", 1),
            End::Ret(_) => s.outcome("out-of-claim", 1),
            End::Err(_) => s.outcome("model-err", 1),
            End::OutOfClaim(_) => s.outcome("out-of-claim", 1),
            End::NoTermination => s.outcome("no-termination", 1),
            End::Malformed(w) => {
                s.violation(&format!("harness/{class}/malformed-template"), format!("reference machine: {w}"), rp.clone());
                return;
            }
        }
        let io = r.run(Eng::Interp, &pkt, &[], m.steps * 2 + 1000);
        let detail_in = || format!("dst r{} = {a:#x}, src r{} = {b:#x}", c.i.dst, c.i.src);
        if eng == Eng::Interp {
            s.count("traces_validated_against_impl", 1);
            if let Some((sym, det)) = cmp_with_model(&end, &m, &io) {
                if explained_by_zext(&prog, VmKind::Raw, &pkt, &[], helpers, 200_000, &io) {
                    s.violation(&format!("interp/{QUIRK_SIG_CLASS}/imm-zero-extended"), format!("{}: {det} [{}]", isa::listing(&[c.i]).join(""), detail_in()), rp.clone());
                } else {
                    let sym = if sym == "packet-mismatch" { l1_symptom(c, first_cell_mismatch(&m.packet, &io.packet).unwrap()) } else { sym };
                    s.violation(&format!("interp/{class}/{sym}"), format!("{}: {det} [{}]", isa::listing(&[c.i]).join(""), detail_in()), rp.clone());
                }
            }
            if defined && (m.packet[80..168] != refmodel_cells(&pkt)[80..168] || m.packet[SCR0..SCR1] != refmodel_cells(&pkt)[SCR0..SCR1]) {
                s.count("distinct_nontrivial", 1);
            }
        } else if defined && matches!(io.out, Out::Ok(_)) {
            let o = r.run(eng, &pkt, &[], 0);
            s.count("traces_validated_against_impl", 1);
            s.count("distinct_nontrivial", 1);
            if let Some((sym, det)) = cmp_with_interp(&m, &io, &o) {
                if cmp_with_model(&end, &m, &o).is_none() && explained_by_zext(&prog, VmKind::Raw, &pkt, &[], helpers, 200_000, &io) {
                    // the compiled code follows the ISA; the interpreter (the oracle of this
                    // property) is the one that deviates, in the recorded way
                    s.violation(&format!("{}/{QUIRK_SIG_CLASS}/interpreter-zero-extends-imm", eng.name()), format!("{}: {det} [{}]", isa::listing(&[c.i]).join(""), detail_in()), rp.clone());
                    continue;
                }
                let sym = if sym == "packet-mismatch" {
                    let k = (0..PKT_LEN).find(|k| matches!(m.packet[*k], Cell::Def(_)) && o.packet[*k] != io.packet[*k]).unwrap();
                    l1_symptom(c, k)
                } else {
                    sym
                };
                s.violation(&format!("{}/{class}/{sym}", eng.name()), format!("{}: {det} [{}]", isa::listing(&[c.i]).join(""), detail_in()), rp.clone());
            }
            if !r.pkt.canary_ok() {
                s.violation(&format!("{}/{class}/wrote-outside-packet", eng.name()), format!("{}: bytes next to the packet were modified [{}]", isa::listing(&[c.i]).join(""), detail_in()), rp.clone());
                r.pkt.reset_canary();
            }
        } else {
            s.outcome("not-compared(interpreter-not-ok-or-undefined)", 1);
        }
    }
    s.sample(&format!("l1-{:?}", c.kind), || json!({"descriptor": rp, "program": isa::listing(&prog)}));
}

fn refmodel_cells(b: &[u8]) -> Vec<Cell> {
    b.iter().map(|x| Cell::Def(*x)).collect()
}

/// Enumerate all layer-1 groups.
pub fn l1_enumerate(thorough: bool) -> Vec<L1> {
    let mut v = vec![];
    let nb = if thorough { 2 } else { 1 };
    let mk = |kind, i: I, hi: i32, b: u8, x: i32| L1 { kind, i, hi, b, x };
    for opc in isa::all_supported() {
        let k = isa::kind(opc).unwrap();
        match k {
            Kind::Alu { reg, .. } => {
                for d in 0..=9u8 {
                    if reg {
                        for sr in 0..=10u8 {
                            for n in 0..nb {
                                v.push(mk(L1Kind::Alu, I::new(opc, d, sr, 0, 0), 0, pick_base(d, sr, n), 0));
                            }
                        }
                    } else {
                        for imm in I32S {
                            v.push(mk(L1Kind::Alu, I::new(opc, d, 0, 0, imm), 0, pick_base(d, d, (d as usize + (imm as u32 as usize)) % 2), 0));
                        }
                    }
                }
                // dense operands for one register assignment
                if reg {
                    v.push(mk(L1Kind::Alu, I::new(opc, 2, 3, 0, 0), 0, pick_base(2, 3, 0), 1));
                } else {
                    for imm in dense_imms() {
                        v.push(mk(L1Kind::Alu, I::new(opc, 4, 0, 0, imm), 0, pick_base(4, 4, 0), 0));
                    }
                }
            }
            Kind::Neg { .. } => {
                for d in 0..=9u8 {
                    for n in 0..nb {
                        v.push(mk(L1Kind::Alu, I::new(opc, d, 0, 0, 0), 0, pick_base(d, d, n), 0));
                    }
                }
            }
            Kind::End { .. } => {
                for d in 0..=9u8 {
                    for w in [16, 32, 64] {
                        v.push(mk(L1Kind::Alu, I::new(opc, d, 0, 0, w), 0, pick_base(d, d, 0), 0));
                    }
                }
            }
            Kind::LdDw => {
                for d in 0..=9u8 {
                    for lo in I32S {
                        for hi in I32S {
                            v.push(mk(L1Kind::Lddw, I::new(opc, d, 0, 0, lo), hi, pick_base(d, d, 0), 0));
                        }
                    }
                }
            }
            Kind::Ja => v.push(mk(L1Kind::Jmp, I::new(opc, 0, 0, 0, 0), 0, 6, 0)),
            Kind::Jcc { reg, .. } => {
                for d in 0..=9u8 {
                    if reg {
                        for sr in 0..=9u8 {
                            for n in 0..nb {
                                v.push(mk(L1Kind::Jmp, I::new(opc, d, sr, 0, 0), 0, pick_base(d, sr, n), 0));
                            }
                        }
                    } else {
                        for imm in I32S {
                            v.push(mk(L1Kind::Jmp, I::new(opc, d, 0, 0, imm), 0, pick_base(d, d, 0), 0));
                        }
                    }
                }
                if reg {
                    v.push(mk(L1Kind::Jmp, I::new(opc, 2, 3, 0, 0), 0, pick_base(2, 3, 0), 1));
                } else {
                    for imm in dense_imms() {
                        v.push(mk(L1Kind::Jmp, I::new(opc, 4, 0, 0, imm), 0, pick_base(4, 4, 0), 0));
                    }
                }
            }
            Kind::Ldx(w) | Kind::St(w) | Kind::Stx(w) | Kind::Xadd(w) => {
                let w = w as i32;
                let xs: Vec<i32> = if matches!(k, Kind::Xadd(_)) { vec![168, 224 - 8 + w.max(0) * 0 + 0, 176] } else { vec![168, 169, 175, 224] };
                for d in 0..=9u8 {
                    for sr in 0..=9u8 {
                        // immediate stores ignore src; loads from [src]; keep the product small where a field is unused
                        if matches!(k, Kind::St(_)) && sr != 0 {
                            continue;
                        }
                        for off in O16 {
                            for x in &xs {
                                if x + w > SCR1 as i32 {
                                    continue;
                                }
                                if !thorough && (d + sr + (*x as u8)) % 2 == 1 && off != 0 {
                                    continue;
                                }
                                let imm = if matches!(k, Kind::St(_)) { 0x81c2d3e4u32 as i32 } else { 0 };
                                let areg = if matches!(k, Kind::Ldx(_)) { sr } else { d };
                                let _ = areg;
                                v.push(mk(L1Kind::Mem, I::new(opc, d, sr, off, imm), 0, pick_base(d, sr, 0), *x));
                            }
                        }
                    }
                }
                // store immediates over the immediate alphabet
                if matches!(k, Kind::St(_)) {
                    for imm in I32S {
                        v.push(mk(L1Kind::Mem, I::new(opc, 3, 0, -8, imm), 0, 6, 169));
                    }
                }
                // the stack through r10
                for off in [-512i16, -511, -505, -256, -129, -128, -16, -9, -8, -4, -2, -1] {
                    if off as i32 + w > 0 || (matches!(k, Kind::Xadd(_)) && off as i32 % w != 0) {
                        continue;
                    }
                    for r in 0..=9u8 {
                        match k {
                            Kind::Ldx(_) => v.push(mk(L1Kind::StackMem, I::new(opc, r, 10, off, 0), 0, pick_base(r, r, 0), 0)),
                            Kind::St(_) => {
                                if r == 0 {
                                    v.push(mk(L1Kind::StackMem, I::new(opc, 10, 0, off, 0x55667788), 0, 6, 0))
                                }
                            }
                            _ => v.push(mk(L1Kind::StackMem, I::new(opc, 10, r, off, 0), 0, pick_base(r, r, 0), 0)),
                        }
                    }
                }
            }
            Kind::LdAbs(w) | Kind::LdInd(w) => {
                let w = w as i32;
                let len = PKT_LEN as i32;
                for imm in [0, 1, 7, 8, len - 8, len - w, len - w + 1, len, 0x7fffffff] {
                    for dstf in [0u8, 3] {
                        for sr in if matches!(k, Kind::LdInd(_)) { vec![0u8, 1, 5, 9] } else { vec![0u8] } {
                            v.push(mk(L1Kind::LdPkt, I::new(opc, dstf, sr, 0, imm), 0, pick_base(dstf, sr, 0), 0));
                        }
                    }
                }
            }
            Kind::Call => {
                for dstf in [0u8, 3] {
                    v.push(mk(L1Kind::Call, I::new(opc, dstf, 0, 0, GATHER_ID as i32), 0, 6, 0));
                    v.push(mk(L1Kind::Call, I::new(opc, dstf, 0, 0, GATHER_ID as i32), 0, 9, 0));
                }
                for id in GATHER_IDS_HIGH {
                    v.push(mk(L1Kind::Call, I::new(opc, 0, 0, 0, id as i32), 0, 6, 0));
                }
            }
            Kind::Exit => {}
        }
        // fields the instruction does not use, set to values that mean something in other ISA
        // versions or to plain noise: the verifier accepts them and the semantics ignore them
        // (e.g. offset 8/16/32 on a register move is MOVSX in ISA v4, which rbpf does not implement)
        let noise_off = [8i16, 16, 32, 1, -1];
        match k {
            Kind::Alu { reg, .. } => {
                for (d, sr) in [(2u8, 3u8), (4, 4)] {
                    for off in noise_off {
                        let (src, imm) = if reg { (sr, 0x1234) } else { (sr, -0x7f) };
                        v.push(mk(L1Kind::Alu, I::new(opc, d, src, off, imm), 0, pick_base(d, sr, 0), 0));
                    }
                    if reg {
                        v.push(mk(L1Kind::Alu, I::new(opc, d, sr, 0, -1), 0, pick_base(d, sr, 0), 0));
                    } else {
                        v.push(mk(L1Kind::Alu, I::new(opc, d, 10, 0, 33), 0, pick_base(d, d, 0), 0));
                    }
                }
            }
            Kind::Neg { .. } | Kind::End { .. } => {
                let w = if matches!(k, Kind::End { .. }) { 32 } else { 0x55 };
                for off in noise_off {
                    v.push(mk(L1Kind::Alu, I::new(opc, 2, 3, off, w), 0, pick_base(2, 3, 0), 0));
                }
            }
            Kind::Jcc { reg, .. } => {
                for off_noise_imm in [0x1234, -1] {
                    if reg {
                        v.push(mk(L1Kind::Jmp, I::new(opc, 2, 3, 0, off_noise_imm), 0, pick_base(2, 3, 0), 0));
                    }
                }
                if !reg {
                    for sr in [1u8, 10] {
                        v.push(mk(L1Kind::Jmp, I::new(opc, 2, sr, 0, 2), 0, pick_base(2, 2, 0), 0));
                    }
                }
            }
            Kind::Ja => {
                v.push(mk(L1Kind::Jmp, I::new(opc, 3, 4, 0, 0x1234), 0, 6, 0));
            }
            Kind::LdDw => {
                for off in noise_off {
                    v.push(mk(L1Kind::Lddw, I::new(opc, 2, 1, off, 0x11223344), 0x55667788, pick_base(2, 2, 0), 0));
                }
            }
            _ => {}
        }
    }
    v
}

pub fn run_layer1(s: &mut Sink, eng: Eng, g: &mut u64) {
    let thorough = s.tier == Tier::Thorough;
    let all = l1_enumerate(thorough);
    s.meta.insert("layer1_groups".into(), json!(all.len()));
    // groups are handed to shards in blocks of 8 consecutive descriptors
    for chunk in all.chunks(8) {
        let idx = *g;
        *g += 1;
        if !s.take(idx) {
            continue;
        }
        if s.expired() {
            s.cut("layer 1: single transitions");
            return;
        }
        for c in chunk {
            let mut rp = c.to_json();
            rp["eng"] = json!(eng.name());
            s.mark(idx, &format!("{}/{}", eng.name(), c.class()), &rp);
            let cc = *c;
            run_group(s, eng, &c.class(), &rp, |cs| l1_group(cs, eng, &cc));
        }
    }
    s.done("layer 1: single transitions");
}

pub fn replay_l1(v: &Value) -> Vec<String> {
    let c = L1::from_json(v);
    let eng = Eng::parse(v["eng"].as_str().unwrap_or("interp"));
    let mut s = Sink::new("replay", Tier::Quick, 0, 1, None, None, 3600);
    let rp = c.to_json();
    run_group(&mut s, eng, &c.class(), &rp, |cs| l1_group(cs, eng, &c));
    let r = s.finish();
    r["violations"].as_array().unwrap().iter().map(|x| format!("{}: {}", x["sig"].as_str().unwrap(), x["detail"].as_str().unwrap())).collect()
}

// ------------------------------------------------------------------------------------------
// Generic program check (layers 2-4): one program, several inputs

pub struct ProgCase<'a> {
    pub kind: VmKind,
    pub prog: &'a [I],
    pub inputs: &'a [(Vec<u8>, Vec<u8>)],
    pub helpers: bool,
    pub class: &'a str,
    pub max_steps: u64,
    pub has_local_call: bool,
    /// 0 = the VM is created with the program; k > 0 = created with decoy program k, then
    /// `set_program` (vm::set_reload)
    pub reload: u8,
}

/// Switches the reload construction mode on for the lifetime of the guard.
pub struct ReloadGuard;
impl ReloadGuard {
    pub fn new(k: u8) -> ReloadGuard {
        vm::set_reload(k);
        ReloadGuard
    }
}
impl Drop for ReloadGuard {
    fn drop(&mut self) {
        vm::set_reload(0);
    }
}

#[derive(Default)]
pub struct ProgStats {
    pub rejected: bool,
    pub compared: u64,
}

fn prog_replay(c: &ProgCase, eng: Eng) -> Value {
    json!({"kind":"isa-prog","eng":eng.name(),"vm":vm::kind_name(c.kind),"prog":hex(&isa::enc(c.prog)),
           "inputs": c.inputs.iter().map(|(a,b)| json!([hex(a),hex(b)])).collect::<Vec<_>>(),
           "helpers": c.helpers, "class": c.class, "max_steps": c.max_steps, "local_call": c.has_local_call, "reload": c.reload})
}

/// Check one program on `eng`. `rp` is the replay descriptor to attach to violations.
pub fn check_prog(s: &mut Sink, eng: Eng, c: &ProgCase, rp: &Value) -> ProgStats {
    let mut st = ProgStats::default();
    let bytes = isa::enc(c.prog);
    let class = c.class;
    let _reload = ReloadGuard::new(c.reload);
    let pkt_len = c.inputs.first().map_or(0, |i| i.0.len());
    let mb_len = c.inputs.first().map_or(0, |i| i.1.len());
    let mut r = match catch(|| Runner::new(c.kind, &bytes, pkt_len, mb_len, c.helpers)) {
        Ok(Ok(r)) => r,
        Ok(Err(_)) => {
            st.rejected = true;
            return st;
        }
        Err(p) => {
            s.violation(&format!("verifier/{class}/{}", panic_class(&p)), format!("loading the program panicked: {p}"), rp.clone());
            st.rejected = true;
            return st;
        }
    };
    // model first: it decides what is inside the claim
    let mut models = vec![];
    for (pkt, mb) in c.inputs {
        let mut m = model_for(c.prog, c.kind, pkt, mb, c.helpers);
        m.max_steps = c.max_steps;
        let end = m.run();
        s.count("states", 1);
        s.count("transitions", m.steps);
        s.count("evaluations", 1);
        s.outcome(match &end {
            End::Ret(Val::Int(_)) => "ret",
            End::Ret(_) => "out-of-claim",
            End::Err(_) => "model-err",
            End::OutOfClaim(_) => "out-of-claim",
            End::NoTermination => "no-termination",
            End::Malformed(_) => "model-malformed",
        }, 1);
        models.push((end, m));
    }
    let mut compiled = false;
    for (n, (pkt, mb)) in c.inputs.iter().enumerate() {
        let (end, m) = &models[n];
        if n > 0 && matches!(c.kind, VmKind::Fixed(..)) {
            // the fixed VM's internal buffer keeps what the program stored in it (allowed, C10):
            // every input starts from a fresh VM, as the reference machine does
            r = match catch(|| Runner::new(c.kind, &bytes, pkt_len, mb_len, c.helpers)) {
                Ok(Ok(r)) => r,
                _ => return st,
            };
            compiled = false;
        }
        if matches!(end, End::Malformed(_)) {
            // the real verifier accepted something the reference machine cannot run: C05/C06 territory
            continue;
        }
        let defined = matches!(end, End::Ret(Val::Int(_)));
        let budget = if matches!(end, End::NoTermination) { c.max_steps } else { m.steps * 2 + 1000 };
        let io = r.run(Eng::Interp, pkt, mb, budget);
        if eng == Eng::Interp {
            s.count("traces_validated_against_impl", 1);
            st.compared += 1;
            if let Some((sym, det)) = cmp_with_model(end, m, &io) {
                if explained_by_zext(c.prog, c.kind, pkt, mb, c.helpers, c.max_steps, &io) {
                    s.violation(&format!("interp/{QUIRK_SIG_CLASS}/imm-zero-extended"), format!("{det} [input {}]", hex(&pkt[..pkt.len().min(16)])), rp.clone());
                } else {
                    s.violation(&format!("interp/{class}/{sym}"), format!("{det} [input {}]", hex(&pkt[..pkt.len().min(16)])), rp.clone());
                }
            }
            if defined && (m.taken > 0 || m.steps > 2) {
                s.nontrivial_hashed(fnv(&bytes) ^ fnv(pkt).rotate_left(17) ^ (n as u64));
            }
            continue;
        }
        if !defined || !matches!(io.out, Out::Ok(_)) {
            s.outcome("not-compared(interpreter-not-ok-or-undefined)", 1);
            continue;
        }
        if matches!(c.kind, VmKind::Fixed(..)) {
            // the interpreter run above may have stored into the VM's internal buffer: the
            // compiled run starts from a fresh VM too
            r = match catch(|| Runner::new(c.kind, &bytes, pkt_len, mb_len, c.helpers)) {
                Ok(Ok(r)) => r,
                _ => return st,
            };
            compiled = false;
        }
        if !compiled {
            if c.has_local_call && eng == Eng::Cl {
                // a local call must be refused even when a helper is registered under an id equal
                // to its displacement
                for i in c.prog.iter().filter(|i| i.opc == 0x85 && i.src == 1) {
                    let _ = r.vm.register_helper(i.imm as u32, gather_helper);
                }
            }
            match catch(|| r.vm.compile(eng)) {
                Ok(Ok(())) => {
                    if c.has_local_call && eng == Eng::Cl {
                        s.violation(&format!("cranelift/{class}/compiles-local-call"), "a program with an eBPF-to-eBPF call was compiled instead of refused".into(), rp.clone());
                        return st;
                    }
                }
                Ok(Err(e)) => {
                    if c.has_local_call && eng == Eng::Cl {
                        s.outcome("cranelift-refused-local-call", 1);
                        s.count("traces_validated_against_impl", 1);
                    } else if c.prog.len() > COMPILE_MUST_SUCCEED_UP_TO {
                        // C12 allows an error value; for very large programs (a back-end size limit) a
                        // refusal only means there is no compiled program to compare
                        s.outcome("compile-refused-a-very-large-program(not compared)", 1);
                    } else {
                        s.violation(&format!("{}/{class}/compile-err", eng.name()), format!("compilation refused a verified program: {e}"), rp.clone());
                    }
                    return st;
                }
                Err(p) => {
                    s.violation(&format!("{}/{class}/compile-{}", eng.name(), panic_class(&p)), format!("compilation panicked: {p}"), rp.clone());
                    return st;
                }
            }
            compiled = true;
        }
        let o = r.run(eng, pkt, mb, 0);
        s.count("traces_validated_against_impl", 1);
        st.compared += 1;
        s.nontrivial_hashed(fnv(&bytes) ^ fnv(pkt).rotate_left(17) ^ (n as u64));
        if let Some((sym, det)) = cmp_with_interp(m, &io, &o) {
            if cmp_with_model(end, m, &o).is_none() && explained_by_zext(c.prog, c.kind, pkt, mb, c.helpers, c.max_steps, &io) {
                s.violation(&format!("{}/{QUIRK_SIG_CLASS}/interpreter-zero-extends-imm", eng.name()), format!("{det} [input {}]", hex(&pkt[..pkt.len().min(16)])), rp.clone());
            } else {
                s.violation(&format!("{}/{class}/{sym}", eng.name()), format!("{det} [input {}]", hex(&pkt[..pkt.len().min(16)])), rp.clone());
            }
        }
        if !r.pkt.canary_ok() || !r.mb.canary_ok() {
            s.violation(&format!("{}/{class}/wrote-outside-buffers", eng.name()), "bytes next to the packet / metadata buffer were modified".into(), rp.clone());
            r.pkt.reset_canary();
            r.mb.reset_canary();
        }
    }
    st
}

pub fn replay_prog(v: &Value) -> Vec<String> {
    let eng = Eng::parse(v["eng"].as_str().unwrap());
    let prog = isa::dec(&unhex(v["prog"].as_str().unwrap()));
    let inputs: Vec<(Vec<u8>, Vec<u8>)> = v["inputs"].as_array().unwrap().iter().map(|x| (unhex(x[0].as_str().unwrap()), unhex(x[1].as_str().unwrap()))).collect();
    let class = v["class"].as_str().unwrap().to_string();
    let c = ProgCase { kind: vm::parse_kind(v["vm"].as_str().unwrap()), prog: &prog, inputs: &inputs, helpers: v["helpers"].as_bool().unwrap(), class: &class, max_steps: v["max_steps"].as_u64().unwrap(), has_local_call: v["local_call"].as_bool().unwrap_or(false), reload: v["reload"].as_u64().unwrap_or(0) as u8 };
    let mut s = Sink::new("replay", Tier::Quick, 0, 1, None, None, 3600);
    let rp = v.clone();
    run_group(&mut s, eng, &class, &rp, |cs| {
        check_prog(cs, eng, &c, &rp);
    });
    let r = s.finish();
    r["violations"].as_array().unwrap().iter().map(|x| format!("{}: {}", x["sig"].as_str().unwrap(), x["detail"].as_str().unwrap())).collect()
}

// ------------------------------------------------------------------------------------------
// Layer 2: sequences over the A2 alphabet

pub fn a2_alphabet() -> Vec<(&'static str, Vec<I>)> {
    let i = |opc: u8, d: u8, s: u8, off: i16, imm: i32| I::new(opc, d, s, off, imm);
    vec![
        ("add64 r2,r3", vec![i(0x0f, 2, 3, 0, 0)]),
        ("sub32 r2,r3", vec![i(0x1c, 2, 3, 0, 0)]),
        ("mul64 r0,r3", vec![i(0x2f, 0, 3, 0, 0)]),
        ("mul32 r3,r2", vec![i(0x2c, 3, 2, 0, 0)]),
        ("mul64 r2,0", vec![i(0x27, 2, 0, 0, 0)]),
        ("div64 r2,r3", vec![i(0x3f, 2, 3, 0, 0)]),
        ("div32 r0,r2", vec![i(0x3c, 0, 2, 0, 0)]),
        ("div64 r3,0", vec![i(0x37, 3, 0, 0, 0)]),
        ("mod64 r3,r4", vec![i(0x9f, 3, 4, 0, 0)]),
        ("mod32 r4,r0", vec![i(0x9c, 4, 0, 0, 0)]),
        ("mod32 r2,0", vec![i(0x94, 2, 0, 0, 0)]),
        ("lsh64 r2,r4", vec![i(0x6f, 2, 4, 0, 0)]),
        ("rsh32 r3,r2", vec![i(0x7c, 3, 2, 0, 0)]),
        ("arsh64 r0,r3", vec![i(0xcf, 0, 3, 0, 0)]),
        ("arsh32 r2,33", vec![i(0xc4, 2, 0, 0, 33)]),
        ("neg32 r2", vec![i(0x84, 2, 0, 0, 0)]),
        ("neg64 r3", vec![i(0x87, 3, 0, 0, 0)]),
        ("mov32 r2,r3", vec![i(0xbc, 2, 3, 0, 0)]),
        ("mov64 r3,r0", vec![i(0xbf, 3, 0, 0, 0)]),
        ("mov32 r4,-1", vec![i(0xb4, 4, 0, 0, -1)]),
        ("mov64 r0,-1", vec![i(0xb7, 0, 0, 0, -1)]),
        ("le16 r2", vec![i(0xd4, 2, 0, 0, 16)]),
        ("le32 r3", vec![i(0xd4, 3, 0, 0, 32)]),
        ("be16 r2", vec![i(0xdc, 2, 0, 0, 16)]),
        ("be32 r0", vec![i(0xdc, 0, 0, 0, 32)]),
        ("be64 r3", vec![i(0xdc, 3, 0, 0, 64)]),
        ("lddw r4,0x8000000080000000", isa::lddw(4, 0x8000000080000000).to_vec()),
        ("or64 r2,-2^31", vec![i(0x47, 2, 0, 0, i32::MIN)]),
        ("and32 r3,-1", vec![i(0x54, 3, 0, 0, -1)]),
        ("xor64 r0,r2", vec![i(0xaf, 0, 2, 0, 0)]),
        ("add32 r0,r0", vec![i(0x0c, 0, 0, 0, 0)]),
        ("stxdw [r10-8],r2", vec![i(0x7b, 10, 2, -8, 0)]),
        ("ldxdw r3,[r10-8]", vec![i(0x79, 3, 10, -8, 0)]),
        ("stxw [r10-16],r3", vec![i(0x63, 10, 3, -16, 0)]),
        ("ldxw r2,[r10-16]", vec![i(0x61, 2, 10, -16, 0)]),
        ("stb [r10-1],0x1ff", vec![i(0x72, 10, 0, -1, 0x1ff)]),
        ("stxdw [r10-512],r2", vec![i(0x7b, 10, 2, -512, 0)]),
        ("ldxb r0,[r10-1]", vec![i(0x71, 0, 10, -1, 0)]),
        ("stxdw [r8+0],r4", vec![i(0x7b, 8, 4, 0, 0)]),
        ("ldxdw r2,[r8+0]", vec![i(0x79, 2, 8, 0, 0)]),
        ("stxh [r8+6],r0", vec![i(0x6b, 8, 0, 6, 0)]),
        ("xadddw [r10-8],r3", vec![i(0xdb, 10, 3, -8, 0)]),
        ("xaddw [r8+4],r2", vec![i(0xc3, 8, 2, 4, 0)]),
        ("ldabsh 2", vec![i(0x28, 0, 0, 0, 2)]),
        ("ldindb r4,1", vec![i(0x50, 0, 4, 0, 1)]),
        // a packet load whose index register is the register it writes (r0 = 1 in the first state: byte 16)
        ("ldindb r0,15", vec![i(0x50, 0, 0, 0, 15)]),
        ("stxdw [r1+168],r3", vec![i(0x7b, 1, 3, 168, 0)]),
        ("ldxw r4,[r1+170]", vec![i(0x61, 4, 1, 170, 0)]),
        ("call 1", vec![isa::call_helper(GATHER_ID)]),
        ("jsgt r2,r3,+0", vec![i(0x6d, 2, 3, 0, 0)]),
    ]
}

const L2_REGS: [u8; 5] = [0, 2, 3, 4, 6];

pub fn l2_states() -> Vec<[u64; 5]> {
    vec![
        [1, 2, 3, 5, 7],
        [0x8000000000000001, 0xffffffff80000002, 0x80000003, 0xfffffffffffffffd, 0x7fffffffffffffff],
        [0x0123456789abcdef, 0x100000001, 0xffff, 0x1f00000021, 0x8000000000000000],
    ]
}

pub fn l2_packet(st: &[u64; 5]) -> Vec<u8> {
    let mut pkt = vec![0u8; PKT_LEN];
    for (n, r) in L2_REGS.iter().enumerate() {
        pkt[8 * *r as usize..8 * *r as usize + 8].copy_from_slice(&st[n].to_le_bytes());
    }
    for k in SCR0..SCR1 {
        pkt[k] = (k * 7 + 3) as u8;
    }
    for k in SCR1..PKT_LEN {
        pkt[k] = 0x99;
    }
    pkt
}

pub const L2_FIXED: VmKind = VmKind::Fixed(0x100, 0x108);

pub fn l2_program(seq: &[&Vec<I>]) -> Vec<I> {
    l2_program_for(VmKind::Raw, seq)
}

/// The sequence template for a VM kind: the data area (inputs, dump) is the packet for raw and
/// fixed-metadata VMs (the latter fetch the packet pointer from the metadata buffer) and the
/// metadata buffer itself for the metadata VM.
pub fn l2_program_for(kind: VmKind, seq: &[&Vec<I>]) -> Vec<I> {
    let mut p = match kind {
        VmKind::Fixed(a, _) => vec![isa::ldxdw(7, 1, a as i16)],
        _ => vec![isa::mov64r(7, 1)],
    };
    for r in L2_REGS {
        p.push(isa::ldxdw(r, 7, 8 * r as i16));
    }
    p.push(isa::mov64r(8, 10));
    p.push(isa::add64i(8, -8));
    p.push(isa::stdw(10, -8, 0x11));
    p.push(isa::stdw(10, -16, 0x22));
    for x in seq {
        p.extend(x.iter());
    }
    for r in L2_REGS {
        p.push(isa::stxdw(7, DUMP0 + 8 * r as i16, r));
    }
    p.push(isa::ldxdw(5, 10, -8));
    p.push(isa::stxdw(7, 128, 5));
    p.push(isa::ldxdw(5, 10, -16));
    p.push(isa::stxdw(7, 136, 5));
    p.push(isa::mov64i(0, 0x600d));
    p.push(isa::EXIT);
    p
}

pub fn run_layer2(s: &mut Sink, eng: Eng, g: &mut u64) {
    let thorough = s.tier == Tier::Thorough;
    let depth = if thorough { 4 } else { 3 };
    let alpha = a2_alphabet();
    let n = alpha.len();
    s.meta.insert("layer2".into(), json!({"alphabet_A2": alpha.iter().map(|a| a.0).collect::<Vec<_>>(), "depth": depth, "initial_states": 3, "vm_kinds": "raw (full depth), mbuff and fixed-mbuff (depth 2; quick) / (depth 3; thorough)"}));
    let small: Vec<u8> = (0..16u8).map(|k| 0xd0 + k).collect();
    // the last entries: the same sequences on VM objects that held another program before (reload mode)
    for (kind, depth, reload) in [(VmKind::Raw, depth, 0u8), (VmKind::Mbuff, depth - 1, 0), (L2_FIXED, depth - 1, 0), (VmKind::Raw, depth - 1, 1), (VmKind::Raw, depth - 1, 2), (VmKind::Raw, depth - 1, 3), (L2_FIXED, 2, 1), (VmKind::Mbuff, 2, 3)] {
    let inputs: Vec<(Vec<u8>, Vec<u8>)> = l2_states().iter().map(|st| match kind {
        VmKind::Mbuff => (small.clone(), l2_packet(st)),
        _ => (l2_packet(st), vec![]),
    }).collect();
    // group = (first, second) instruction; lengths 1 and 2 are done in the groups with second == 0 / first
    for a in 0..n {
        for b in 0..n {
            let idx = *g;
            *g += 1;
            if !s.take(idx) {
                continue;
            }
            if s.expired() {
                s.cut("layer 2: sequences");
                return;
            }
            let class = "seq";
            let rp0 = json!({"kind":"isa-l2-group","eng":eng.name(),"a":a,"b":b,"depth":depth,"reload":reload});
            s.mark(idx, &format!("{}/seq", eng.name()), &rp0);
            let alpha2 = a2_alphabet();
            let inputs2 = inputs.clone();
            run_group(s, eng, class, &rp0, move |cs| {
                let mut seqs: Vec<Vec<usize>> = vec![];
                if b == 0 {
                    seqs.push(vec![a]);
                }
                seqs.push(vec![a, b]);
                let mut frontier = vec![vec![a, b]];
                for _ in 2..depth {
                    let mut next = vec![];
                    for f in &frontier {
                        for c in 0..alpha2.len() {
                            let mut x = f.clone();
                            x.push(c);
                            next.push(x);
                        }
                    }
                    seqs.extend(next.iter().cloned());
                    frontier = next;
                }
                for sq in seqs {
                    let parts: Vec<&Vec<I>> = sq.iter().map(|k| &alpha2[*k].1).collect();
                    let prog = l2_program_for(kind, &parts);
                    let class = match (kind, reload) { (VmKind::Raw, 0) => "seq", (VmKind::Mbuff, 0) => "seq@mbuff", (_, 0) => "seq@fixed-mbuff", _ => "seq@reloaded-vm" };
                    let c = ProgCase { kind, prog: &prog, inputs: &inputs2, helpers: true, class, max_steps: 10_000, has_local_call: false, reload };
                    let rp = prog_replay(&c, eng);
                    let st = check_prog(cs, eng, &c, &rp);
                    if st.rejected {
                        cs.violation("verifier/seq/rejects-template", "the default verifier rejected a well-formed sequence program".into(), rp);
                    }
                    cs.sample("l2-sequence", || json!({"sequence": sq.iter().map(|k| alpha2[*k].0).collect::<Vec<_>>()}));
                }
            });
        }
    }
    }
    s.done("layer 2: sequences");
}

// ------------------------------------------------------------------------------------------
// Layer 3: control-flow skeletons (NoData VM; r1 = 0 is the only defined register at entry)

#[derive(Clone, Copy, Debug, PartialEq, Eq)]
pub enum Slot {
    M,
    Z,
    E,
    W,
    Ja(i32),
    Jl(i32),
    Js(i32),
    C(i32),
}

/// All slot choices for position `pos` of a skeleton with `n` slots (+2 epilogue slots).
pub fn slot_choices(pos: usize, n: usize, with_calls: bool) -> Vec<Slot> {
    let total = n as i32 + 2;
    let mut v = vec![Slot::M, Slot::Z, Slot::E, Slot::W];
    for t in 0..total {
        let d = t - (pos as i32 + 1);
        v.push(Slot::Ja(d));
        v.push(Slot::Jl(d));
        v.push(Slot::Js(d));
        if with_calls {
            v.push(Slot::C(d));
        }
    }
    v
}

pub fn skeleton_program(sk: &[Slot]) -> Option<Vec<I>> {
    // W takes two slots: it consumes the following position, which must be W's filler
    let mut p = vec![];
    let mut k = 0;
    let w = [1i32, 3, 9, 27, 81, 243, 729, 2187];
    while k < sk.len() {
        match sk[k] {
            Slot::M => p.push(isa::add64i(1, w[k % 8])),
            Slot::Z => p.push(isa::mov64r(0, 1)),
            Slot::E => p.push(isa::EXIT),
            Slot::W => {
                if k + 1 >= sk.len() || sk[k + 1] != Slot::W {
                    return None;
                }
                let l = isa::lddw(8, 0x1122334455667788);
                p.push(l[0]);
                p.push(l[1]);
                k += 1;
            }
            Slot::Ja(d) => p.push(isa::ja(d as i16)),
            Slot::Jl(d) => p.push(I::new(0xa5, 1, 0, d as i16, 40)),
            Slot::Js(d) => p.push(I::new(0x45, 1, 0, d as i16, 1)),
            Slot::C(d) => p.push(isa::call_local(d)),
        }
        k += 1;
    }
    p.push(isa::mov64r(0, 1));
    p.push(isa::EXIT);
    Some(p)
}

fn skel_str(sk: &[Slot]) -> String {
    sk.iter().map(|x| format!("{x:?}")).collect::<Vec<_>>().join(" ")
}

pub fn run_layer3(s: &mut Sink, eng: Eng, g: &mut u64) {
    let thorough = s.tier == Tier::Thorough;
    let n: usize = match (eng, thorough) {
        (Eng::Cl, false) => 3,
        (Eng::Cl, true) => 4,
        (_, false) => 4,
        (_, true) => 5,
    };
    s.meta.insert("layer3".into(), json!({"slots": n, "grammar": "M add64 r1,3^i | Z mov64 r0,r1 | E exit | W lddw (2 slots) | Ja/Jl(jlt r1,40)/Js(jset r1,1)/C(local call) with every displacement whose target lies in the program; epilogue mov64 r0,r1; exit", "vm": "NoData"}));
    let inputs: Vec<(Vec<u8>, Vec<u8>)> = vec![(vec![], vec![])];
    // the skeletons one slot smaller are also run on VM objects that held another program before
    for (n, reload) in [(n, 0u8), (n - 1, 1), (n - 1, 3)] {
        // group = choice of the first two slots
        let c0 = slot_choices(0, n, true);
        let c1 = slot_choices(1, n, true);
        for a in &c0 {
            for b in &c1 {
                let idx = *g;
                *g += 1;
                if !s.take(idx) {
                    continue;
                }
                if s.expired() {
                    s.cut("layer 3: control-flow skeletons");
                    return;
                }
                let rp0 = json!({"kind":"isa-l3-group","eng":eng.name(),"n":n,"a":format!("{a:?}"),"b":format!("{b:?}"),"reload":reload});
                s.mark(idx, &format!("{}/cfg", eng.name()), &rp0);
                let (a, b) = (*a, *b);
                let inputs2 = inputs.clone();
                run_group(s, eng, "cfg", &rp0, move |cs| {
                    let mut frontier: Vec<Vec<Slot>> = vec![vec![a, b]];
                    for pos in 2..n {
                        let ch = slot_choices(pos, n, true);
                        let mut next = Vec::with_capacity(frontier.len() * ch.len());
                        for f in &frontier {
                            for c in &ch {
                                let mut x = f.clone();
                                x.push(*c);
                                next.push(x);
                            }
                        }
                        frontier = next;
                    }
                    for sk in frontier {
                        let Some(prog) = skeleton_program(&sk) else { continue };
                        cs.count("skeletons", 1);
                        let has_call = sk.iter().any(|x| matches!(x, Slot::C(_)));
                        let c = ProgCase { kind: VmKind::NoData, prog: &prog, inputs: &inputs2, helpers: false, class: "cfg", max_steps: 2_000, has_local_call: has_call, reload };
                        let rp = prog_replay(&c, eng);
                        let st = check_prog(cs, eng, &c, &rp);
                        if st.rejected {
                            cs.outcome("rejected-by-verifier", 1);
                        } else {
                            cs.sample("l3-skeleton", || json!({"skeleton": skel_str(&sk), "program": isa::listing(&prog)}));
                        }
                    }
                });
            }
        }
    }
    s.done("layer 3: control-flow skeletons");
}

// ------------------------------------------------------------------------------------------
// Layer 4: distance (long programs)

#[derive(Clone, Copy, Debug)]
pub struct L4 {
    pub n: usize,
    pub p: usize,
    pub d: i32,
    /// 0 = ja, 1 = one-shot conditional jump, 2 = div64 by zero register, 3 = mod64 by zero register,
    /// 4 = local call to a far function, 5 = div32 by non-zero
    pub variant: u8,
}

pub fn l4_program(c: &L4) -> Option<Vec<I>> {
    // layout: [0] mov64 r0,0  [1] mov64 r6,0  [2] mov64 r2,0  [3] mov64 r3,7 ... fillers ... [n-1] exit
    let n = c.n;
    let mut p: Vec<I> = Vec::with_capacity(n);
    p.push(isa::mov64i(0, 0));
    p.push(isa::mov64i(6, 0));
    p.push(isa::mov64i(2, 0));
    p.push(isa::mov64i(3, 7));
    while p.len() < n - 1 {
        p.push(isa::add64i(0, 1));
    }
    p.push(isa::EXIT);
    let pos = c.p;
    if pos < 5 || pos >= n - 2 {
        return None;
    }
    let target = pos as i64 + 1 + c.d as i64;
    match c.variant {
        0 => {
            if c.d < 0 || target < 4 || target as usize >= n {
                return None;
            }
            p[pos] = isa::ja(c.d as i16);
        }
        1 => {
            if target < 4 || target as usize >= n || c.d == -1 || (c.d < 0 && target as usize > pos - 1) {
                return None;
            }
            p[pos - 1] = isa::add64i(6, 1);
            p[pos] = I::new(0x15, 6, 0, c.d as i16, 1); // jeq r6, 1, d
        }
        2 => p[pos] = I::new(0x3f, 0, 2, 0, 0),
        3 => p[pos] = I::new(0x9f, 3, 2, 0, 0),
        5 => p[pos] = I::new(0x3c, 0, 3, 0, 0),
        4 => {
            // function at the far end: [n-3] add64 r0,1000 [n-2] exit ; main must not fall into it
            if target < 4 || target as usize >= n {
                return None;
            }
            let f = target as usize;
            if f + 1 >= n || f == pos || f + 1 == pos {
                return None;
            }
            p[f] = isa::add64i(0, 1000);
            p[f + 1] = isa::EXIT;
            p[pos] = isa::call_local(c.d);
            if f > pos {
                // main returns before reaching the function
                if f < pos + 2 {
                    return None;
                }
                p[f - 1] = isa::EXIT;
            } else {
                // function lies before the call site: main must jump over it
                if f < 6 {
                    return None;
                }
                p[f - 1] = isa::ja(2);
            }
        }
        _ => return None,
    }
    Some(p)
}

fn l4_valid(c: &L4) -> bool {
    l4_program(c).is_some()
}

pub fn l4_cases(thorough: bool, eng: Eng) -> Vec<L4> {
    let mut v = vec![];
    let sizes: Vec<usize> = match (thorough, eng) {
        (false, Eng::Cl) => vec![70_000],
        (false, _) => vec![70_000],
        (true, _) => vec![40_000, 70_000, 1_000_000],
    };
    for n in sizes {
        let ps: Vec<usize> = if !thorough && eng == Eng::Cl {
            // Cranelift lays out its own code: the quick tier keeps the positions at the 2^15 / 2^16 marks and the ends
            vec![5, 32767, 32768, 65535, 65536, n - 10, n / 2]
        } else {
            vec![5, 127, 128, 32766, 32767, 32768, 65534, 65535, 65536, n - 10, n / 2]
        };
        let ds = [0i32, 1, 127, 128, 32767, -2, -129, -130, -32768, 5000, -5000];
        for p in ps {
            if p >= n - 2 {
                continue;
            }
            for d in ds {
                for variant in [0u8, 1] {
                    v.push(L4 { n, p, d, variant });
                }
            }
            for variant in [2u8, 3, 5] {
                v.push(L4 { n, p, d: 0, variant });
            }
            // local calls: displacement (i32) to the other end of the program and nearby
            for d in [3i32, 200, -200, 32767, 32768, -32768, -32769, 65536, -65537, (n as i32 - 3) - (p as i32 + 1), 8 - (p as i32 + 1)] {
                v.push(L4 { n, p, d, variant: 4 });
            }
        }
    }
    v
}

pub fn l4_check(s: &mut Sink, eng: Eng, c: &L4) {
    let Some(prog) = l4_program(c) else { return };
    let rp = json!({"kind":"isa-l4","eng":eng.name(),"n":c.n,"p":c.p,"d":c.d,"variant":c.variant});
    let inputs = vec![(vec![], vec![])];
    let class = match c.variant {
        0 => "far-ja",
        1 => "far-jcc",
        2 => "far-div64-reg-zero",
        3 => "far-mod64-reg-zero",
        5 => "far-div32-reg",
        _ => "far-local-call",
    };
    // programs at the 1,000,000-instruction limit are a class of their own
    let class_s = if c.n >= 1_000_000 { format!("{class}@1M-insns") } else { class.to_string() };
    let class = class_s.as_str();
    let pc = ProgCase { kind: VmKind::NoData, prog: &prog, inputs: &inputs, helpers: false, class, max_steps: 3 * c.n as u64 + 1000, has_local_call: c.variant == 4, reload: 0 };
    let st = check_prog(s, eng, &pc, &rp);
    if st.rejected {
        s.violation(&format!("verifier/{class}/rejects-template"), "the default verifier rejected a well-formed long program".into(), rp.clone());
    }
    s.sample("l4-distance", || rp.clone());
}

pub fn run_layer4(s: &mut Sink, eng: Eng, g: &mut u64) {
    let thorough = s.tier == Tier::Thorough;
    let cases = l4_cases(thorough, eng);
    s.meta.insert("layer4".into(), json!({"programs_planned": cases.len(), "lengths": if thorough {"40000, 70000, 1000000"} else {"70000"}}));
    // only the cases that yield a program are numbered, so that the shards get equal shares of them
    let cases: Vec<L4> = cases.into_iter().filter(|c| l4_valid(c)).collect();
    for c in cases {
        let idx = *g;
        *g += 1;
        if !s.take(idx) {
            continue;
        }
        if s.expired() {
            s.cut("layer 4: distance");
            return;
        }
        let rp = json!({"kind":"isa-l4","eng":eng.name(),"n":c.n,"p":c.p,"d":c.d,"variant":c.variant});
        s.mark(idx, &format!("{}/far", eng.name()), &rp);
        run_group(s, eng, "far", &rp, move |cs| l4_check(cs, eng, &c));
    }
    s.done("layer 4: distance");
}

pub fn replay_l4(v: &Value) -> Vec<String> {
    let eng = Eng::parse(v["eng"].as_str().unwrap());
    let c = L4 { n: v["n"].as_u64().unwrap() as usize, p: v["p"].as_u64().unwrap() as usize, d: v["d"].as_i64().unwrap() as i32, variant: v["variant"].as_u64().unwrap() as u8 };
    let mut s = Sink::new("replay", Tier::Quick, 0, 1, None, None, 3600);
    let rp = v.clone();
    run_group(&mut s, eng, "far", &rp, move |cs| l4_check(cs, eng, &c));
    let r = s.finish();
    r["violations"].as_array().unwrap().iter().map(|x| format!("{}: {}", x["sig"].as_str().unwrap(), x["detail"].as_str().unwrap())).collect()
}

// ------------------------------------------------------------------------------------------
// Layer 5: jump distances in machine-code bytes, and instructions that are jump targets

/// a x `add64 r0,1` (7 bytes of x86) then b x `mov64 r3,r0` (3 bytes): every byte distance.
fn l5_fillers(a: usize, b: usize) -> Vec<I> {
    let mut v = vec![isa::add64i(0, 1); a];
    v.extend(vec![isa::mov64r(3, 0); b]);
    v
}

/// shape 0: backward conditional loop; 1: backward ja; 2: forward taken jcc; 3: forward ja;
/// 4: forward not-taken jcc; 5 / 6: backward ja / jcc with no other jump between it and its target
pub fn l5_distance_program(shape: u8, a: usize, b: usize) -> Vec<I> {
    let f = l5_fillers(a, b);
    let n = f.len() as i16;
    let mut p = vec![isa::mov64i(0, 0), isa::mov64i(3, 0)];
    match shape {
        0 => {
            p.push(isa::mov64i(6, 3));
            p.extend(f);
            p.push(isa::add64i(6, -1));
            p.push(I::new(0x55, 6, 0, -(n + 2), 0)); // jne r6, 0, loop
        }
        1 => {
            p.push(isa::mov64i(6, 2));
            p.extend(f);
            p.push(isa::add64i(6, -1));
            p.push(I::new(0x15, 6, 0, 1, 0)); // jeq r6, 0, +1
            p.push(isa::ja(-(n + 3)));
        }
        2 => {
            p.push(isa::mov64i(6, 0));
            p.push(I::new(0x15, 6, 0, n, 0));
            p.extend(f);
            p.push(isa::add64i(0, 1000));
        }
        3 => {
            p.push(isa::ja(n));
            p.extend(f);
            p.push(isa::add64i(0, 1000));
        }
        5 | 6 => {
            // a backward jump with no other jump between it and its target: entered by a forward
            // jump over the body, the body ends in exit
            p.push(isa::mov64i(6, 1));
            p.push(isa::ja(n + 1));
            p.extend(f);
            p.push(isa::EXIT);
            if shape == 5 {
                p.push(isa::ja(-(n + 2)));
            } else {
                p.push(I::new(0x55, 6, 0, -(n + 2), 0)); // jne r6, 0, back
            }
        }
        _ => {
            p.push(isa::mov64i(6, 0));
            p.push(I::new(0x55, 6, 0, n, 0));
            p.extend(f);
            p.push(isa::add64i(0, 1000));
        }
    }
    p.push(isa::EXIT);
    p
}

/// The instruction P that precedes a jump target T and is skipped by a taken jump J.
fn l5_pred() -> Vec<(&'static str, I)> {
    vec![
        ("add64 r6,1", isa::add64i(6, 1)),
        ("add64 r6,-1", isa::add64i(6, -1)),
        ("sub64 r6,r7", I::new(0x1f, 6, 7, 0, 0)),
        ("and64 r6,0xff", I::new(0x57, 6, 0, 0, 0xff)),
        ("or64 r6,1", I::new(0x47, 6, 0, 0, 1)),
        ("xor64 r6,r6", I::new(0xaf, 6, 6, 0, 0)),
        ("add32 r6,1", I::new(0x04, 6, 0, 0, 1)),
        ("mov64 r6,r7", isa::mov64r(6, 7)),
        ("mov64 r6,0", isa::mov64i(6, 0)),
        ("neg64 r6", I::new(0x87, 6, 0, 0, 0)),
        ("lsh64 r6,32", I::new(0x67, 6, 0, 0, 32)),
        ("add64 r7,1", isa::add64i(7, 1)),
        ("mov32 r6,r6", I::new(0xbc, 6, 6, 0, 0)),
    ]
}

/// The jump-target instruction T: conditional jumps on r6 (taken -> r0 = 2, else r0 = 1), or an
/// ALU instruction on r6 whose result is returned.
fn l5_target() -> Vec<(String, I)> {
    let mut v = vec![];
    for (nm, op) in [("jeq", 0x10u8), ("jne", 0x50), ("jgt", 0x20), ("jge", 0x30), ("jlt", 0xa0), ("jle", 0xb0), ("jsgt", 0x60), ("jsge", 0x70), ("jslt", 0xc0), ("jsle", 0xd0), ("jset", 0x40)] {
        for (cls, cn) in [(0x05u8, ""), (0x06, "32")] {
            for imm in [0, 1, -1] {
                v.push((format!("{nm}{cn} r6,{imm}"), I::new(op | cls, 6, 0, 2, imm)));
            }
            v.push((format!("{nm}{cn} r6,r7"), I::new(op | cls | 0x08, 6, 7, 2, 0)));
        }
    }
    for (nm, i) in [("add64 r6,1", isa::add64i(6, 1)), ("rsh64 r6,32", I::new(0x77, 6, 0, 0, 32)), ("arsh64 r6,32", I::new(0xc7, 6, 0, 0, 32)),
                    ("mov32 r6,r6", I::new(0xbc, 6, 6, 0, 0)), ("and64 r6,0xffff", I::new(0x57, 6, 0, 0, 0xffff)), ("add64 r6,r7", I::new(0x0f, 6, 7, 0, 0))] {
        v.push((nm.to_string(), i));
    }
    v
}

pub fn l5_target_program(a: u64, b: u64, j: u8, p: I, t: I) -> Vec<I> {
    let mut v = vec![];
    v.extend(isa::lddw(6, a));
    v.extend(isa::lddw(7, b));
    v.push(match j {
        0 => I::new(0x15, 7, 0, 1, 0), // jeq r7, 0, +1
        1 => I::new(0x55, 7, 0, 1, 0), // jne r7, 0, +1
        2 => I::new(0x65, 7, 0, 1, 0), // jsgt r7, 0, +1
        _ => isa::ja(1),
    });
    v.push(p);
    v.push(t);
    if matches!(isa::kind(t.opc), Some(Kind::Jcc { .. })) {
        v.push(isa::mov64i(0, 1));
        v.push(isa::EXIT);
        v.push(isa::mov64i(0, 2));
        v.push(isa::EXIT);
    } else {
        v.push(isa::mov64r(0, 6));
        v.push(isa::EXIT);
    }
    v
}

pub fn run_layer5(s: &mut Sink, eng: Eng, g: &mut u64) {
    let thorough = s.tier == Tier::Thorough;
    let (amax, bmax) = if thorough { (64usize, 128usize) } else { (32, 64) };
    s.meta.insert("layer5".into(), json!({
        "distance": format!("7 jump shapes (backward jcc loop, backward ja, forward jcc taken / not taken, forward ja, backward ja / jcc with no other jump in between) x a in 0..={amax} seven-byte fillers x b in 0..={bmax} three-byte fillers: every machine-code distance up to {} bytes, most of them several ways", 7 * amax + 3 * bmax),
        "jump_targets": "J in {jeq, jne, jsgt r7,0,+1; ja +1} x P (13 ALU instructions, skipped when J is taken) x T (11 conditions x 64/32 bit x imm {0,1,-1} and reg; 6 ALU) x r6 in {0,1,-1,0xff,2^32} x r7 in {0,1}",
    }));
    let inputs = vec![(vec![], vec![])];
    for a in 0..=amax {
        let idx = *g;
        *g += 1;
        if !s.take(idx) {
            continue;
        }
        if s.expired() {
            s.cut("layer 5: distances");
            return;
        }
        let rp0 = json!({"kind":"isa-l5-dist","eng":eng.name(),"a":a,"bmax":bmax});
        s.mark(idx, &format!("{}/distance", eng.name()), &rp0);
        let inputs2 = inputs.clone();
        run_group(s, eng, "distance", &rp0, move |cs| {
            for b in 0..=bmax {
                for shape in 0..7u8 {
                    let prog = l5_distance_program(shape, a, b);
                    let c = ProgCase { kind: VmKind::NoData, prog: &prog, inputs: &inputs2, helpers: false, class: "distance", max_steps: 100_000, has_local_call: false, reload: 0 };
                    let rp = prog_replay(&c, eng);
                    let st = check_prog(cs, eng, &c, &rp);
                    if st.rejected {
                        cs.violation("verifier/distance/rejects-template", "the default verifier rejected a well-formed program".into(), rp);
                    }
                }
            }
        });
    }
    s.done("layer 5: every jump distance");
    let preds = l5_pred();
    let targets = l5_target();
    for (pi, (pn, p)) in preds.iter().enumerate() {
        for j in 0..4u8 {
            let idx = *g;
            *g += 1;
            if !s.take(idx) {
                continue;
            }
            if s.expired() {
                s.cut("layer 5: jump targets");
                return;
            }
            let rp0 = json!({"kind":"isa-l5-target","eng":eng.name(),"pred":pi,"j":j});
            s.mark(idx, &format!("{}/jump-target", eng.name()), &rp0);
            let inputs2 = inputs.clone();
            let targets2 = targets.clone();
            let p = *p;
            let _ = pn;
            run_group(s, eng, "jump-target", &rp0, move |cs| {
                for (_, t) in &targets2 {
                    for a in [0u64, 1, u64::MAX, 0xff, 1 << 32] {
                        for b in [0u64, 1] {
                            let prog = l5_target_program(a, b, j, p, *t);
                            let c = ProgCase { kind: VmKind::NoData, prog: &prog, inputs: &inputs2, helpers: false, class: "jump-target", max_steps: 1000, has_local_call: false, reload: 0 };
                            let rp = prog_replay(&c, eng);
                            let st = check_prog(cs, eng, &c, &rp);
                            if st.rejected {
                                cs.violation("verifier/jump-target/rejects-template", "the default verifier rejected a well-formed program".into(), rp);
                            }
                        }
                    }
                }
            });
        }
    }
    s.done("layer 5: instructions that are jump targets");
}

// ------------------------------------------------------------------------------------------
// Layer 6: successive executions on one VM object (packets at the same / another address, of
// different lengths); the compiled program must track the interpreter run on a fresh VM

pub fn run_layer6(s: &mut Sink, eng: Eng, g: &mut u64) {
    let idx = *g;
    *g += 1;
    if !s.take(idx) {
        return;
    }
    let rp0 = json!({"kind":"isa-l6","eng":eng.name()});
    s.mark(idx, &format!("{}/reuse", eng.name()), &rp0);
    run_group(s, eng, "reuse", &rp0, move |cs| {
        l6_check(cs, eng);
        l6_nested(cs, eng);
        if eng == Eng::Interp {
            l6_after_error(cs);
        }
        if eng != Eng::Interp {
            l6_side_effects(cs, eng);
        }
    });
    s.done("layer 6: successive executions on one VM object; helper side effects on the packet; helper re-binding");
}

fn l6_check(s: &mut Sink, eng: Eng) {
    // r0 = (packet length << 8) | last packet byte, read through the context of each VM kind
    let fixed = VmKind::Fixed(0x40, 0x50);
    // `clobber`: having computed its result, the program overwrites the two pointer slots (and a third
    // slot) of the fixed VM's buffer: the next execution must find fresh pointers there all the same
    for (kind, clobber) in [(fixed, false), (VmKind::Raw, false), (VmKind::Mbuff, false), (fixed, true), (VmKind::Fixed(0, 8), true)] {
        let prog: Vec<I> = match kind {
            VmKind::Fixed(a, b) => vec![
                isa::ldxdw(2, 1, a as i16), isa::ldxdw(3, 1, b as i16), isa::mov64r(0, 3), I::new(0x1f, 0, 2, 0, 0), I::new(0x67, 0, 0, 0, 8),
                isa::ldxb(4, 3, -1), I::new(0x4f, 0, 4, 0, 0), isa::EXIT,
            ],
            VmKind::Raw => vec![isa::ldxb(0, 1, 7), I::new(0x30, 0, 0, 0, 5), I::new(0x0f, 0, 0, 0, 0), isa::EXIT], // ldxb r0,[r1+7]; ldabsb 5 ...
            _ => vec![isa::ldxb(0, 1, 3), I::new(0x30, 0, 0, 0, 2), isa::EXIT],
        };
        let prog: Vec<I> = if matches!(kind, VmKind::Raw) { vec![isa::ldxb(6, 1, 7), I::new(0x30, 0, 0, 0, 5), I::new(0x67, 0, 0, 0, 8), I::new(0x4f, 0, 6, 0, 0), isa::EXIT] }
                           else if matches!(kind, VmKind::Mbuff) { vec![isa::ldxb(6, 1, 3), I::new(0x30, 0, 0, 0, 2), I::new(0x67, 0, 0, 0, 8), I::new(0x4f, 0, 6, 0, 0), isa::EXIT] }
                           else { prog };
        let prog: Vec<I> = if let (VmKind::Fixed(a, b), true) = (kind, clobber) {
            let mut p = prog[..prog.len() - 1].to_vec();
            p.push(isa::stdw(1, a as i16, 0x11));
            p.push(isa::stdw(1, b as i16, 0x22));
            p.push(isa::stw(1, (a.max(b) + 4) as i16, 0x33));
            p.push(isa::EXIT);
            p
        } else {
            prog
        };
        let bytes = isa::enc(&prog);
        // the packet alphabet: (buffer, start offset inside it, length)
        let alpha: [(usize, usize, usize); 5] = [(0, 0, 8), (0, 0, 16), (0, 0, 24), (1, 0, 16), (0, 8, 16)];
        let bufs = [Buf::new(64, 0), Buf::new(64, 0)];
        for (bi, b) in bufs.iter().enumerate() {
            let img: Vec<u8> = (0..64u8).map(|k| k.wrapping_mul(5).wrapping_add(17 + 100 * bi as u8)).collect();
            b.fill(&img);
        }
        let mbuf = Buf::new(16, 0);
        mbuf.fill(&[0x31, 0x32, 0x33, 0x34, 0x35, 0x36, 0x37, 0x38, 0, 0, 0, 0, 0, 0, 0, 0]);
        let mbraw = || if matches!(kind, VmKind::Mbuff) { mbuf.raw() } else { vm::empty_raw() };
        let raw = |x: (usize, usize, usize)| (unsafe { bufs[x.0].ptr.add(x.1) }, x.2);
        // expected value of each packet: the interpreter on a fresh VM
        let mut want = vec![];
        for x in alpha {
            let mut vm = match AnyVm::new(kind, Some(&bytes)) { Ok(v) => v, Err(e) => { s.violation("verifier/reuse/rejects-template", e, json!({"kind":"none"})); return; } };
            want.push(vm.exec_out(Eng::Interp, raw(x), mbraw()));
        }
        // every sequence of 1..=3 packets on one VM object
        let n = alpha.len();
        let mut seqs: Vec<Vec<usize>> = vec![];
        for a in 0..n { seqs.push(vec![a]); for b in 0..n { seqs.push(vec![a, b]); for c in 0..n { seqs.push(vec![a, b, c]); } } }
        for sq in seqs {
            let mut vm = AnyVm::new(kind, Some(&bytes)).unwrap();
            if let Err(e) = vm.compile(eng) {
                s.violation(&format!("{}/reuse/compile-err", eng.name()), e, json!({"kind":"isa-l6","eng":eng.name()}));
                return;
            }
            for (k, x) in sq.iter().enumerate() {
                let got = vm.exec_out(eng, raw(alpha[*x]), mbraw());
                s.count("evaluations", 1);
                s.count("states", 1);
                s.count("transitions", 1);
                s.count("traces_validated_against_impl", 1);
                if got != want[*x] {
                    s.violation(&format!("{}/reuse@{}/value-mismatch", eng.name(), vm::kind_name(kind).split(':').next().unwrap()), format!("execution {} of packet sequence {:?} (buffer, offset, length: {:?}) returned {}, the interpreter on a fresh VM returns {}", k + 1, sq, sq.iter().map(|i| alpha[*i]).collect::<Vec<_>>(), show_out(&got), show_out(&want[*x])), json!({"kind":"isa-l6","eng":eng.name()}));
                    break;
                }
                s.nontrivial_hashed(fnv(&bytes) ^ (sq.iter().fold(7u64, |h, i| h * 31 + *i as u64)) ^ ((k as u64) << 40));
            }
        }
    }
}

/// "The result of an execution depends only on the loaded program, the registered helpers and the
/// buffers passed in, not on earlier executions" - in particular not on an earlier execution that
/// *failed*. On one VM object: program F fills its registers and stack slots and then fails in one
/// of five ways (or succeeds); then program R - reloaded with set_program or already there as a
/// local function - reads every one of those stack slots without writing them first. What R returns
/// must be what it returns on a VM that has never run anything (differential oracle; the interpreter's
/// fresh stack is all zero today, but only "the same as on a fresh VM" is demanded).
pub fn l6_after_error(s: &mut Sink) {
    let slots: [i16; 6] = [-8, -16, -24, -256, -504, -512];
    let reader = |mask: u8| -> Vec<I> {
        let mut r: Vec<I> = vec![isa::mov64i(0, 0)];
        for (k, o) in slots.iter().enumerate() {
            if mask & (1 << k) != 0 {
                r.push(isa::ldxdw(2, 10, *o));
                r.push(I::new(0xaf, 0, 2, 0, 0)); // xor64 r0, r2
                r.push(I::new(0x27, 0, 0, 0, 3)); // mul64 r0, 3
            }
        }
        r.push(isa::EXIT);
        r
    };
    for kind in [VmKind::NoData, VmKind::Raw, VmKind::Mbuff, VmKind::Fixed(0x10, 0x18)] {
        for fail in 0..6u8 {
            let mut w: Vec<I> = isa::lddw(6, 0x1122_3344_5566_7788).to_vec();
            w.push(isa::mov64r(7, 6));
            for o in slots {
                w.push(isa::stxdw(10, o, 6));
            }
            match fail {
                0 => {}
                1 => w.push(isa::ldxdw(0, 10, 8)),                      // load above the stack
                2 => w.push(isa::call_helper(0x7fff_fff0)),            // unregistered helper
                3 => w.push(isa::stxdw(10, -520, 6)),                  // store below the stack
                4 => {
                    w.extend(isa::lddw(3, 0xdead_0000_0000));
                    w.push(isa::ldxb(0, 3, 0));                         // wild load
                }
                _ => w.push(I::new(0xdb, 10, 6, -4, 0)),               // misaligned atomic add
            }
            w.push(isa::mov64i(0, 0));
            w.push(isa::EXIT);
            let wb = isa::enc(&w);
            for mask in [0b111111u8, 0b000001, 0b100000, 0b001010] {
                let rb = isa::enc(&reader(mask));
                let pkt = Buf::new(32, 0);
                let mb = Buf::new(32, 0);
                let bufs = |k: VmKind| (if matches!(k, VmKind::NoData) { vm::empty_raw() } else { pkt.raw() }, if matches!(k, VmKind::Mbuff) { mb.raw() } else { vm::empty_raw() });
                let (mem, mbr) = bufs(kind);
                let fresh = catch(|| {
                    let mut v = AnyVm::new(kind, Some(&rb))?;
                    v.exec(Eng::Interp, mem, mbr)
                });
                for order in 0..2u8 {
                    let got = catch(|| {
                        let mut v = AnyVm::new(kind, Some(&wb))?;
                        let first = v.exec(Eng::Interp, mem, mbr);
                        if order == 1 {
                            // a second failing / succeeding run before the reader
                            let _ = v.exec(Eng::Interp, mem, mbr);
                        }
                        let offs = match kind { VmKind::Fixed(a, b) => (a, b), _ => (0, 0) };
                        v.set_program(&rb, offs)?;
                        let r = v.exec(Eng::Interp, mem, mbr);
                        Ok::<_, String>((first.is_ok(), r))
                    });
                    s.count("evaluations", 1);
                    s.count("states", 3);
                    s.count("transitions", 3);
                    s.count("traces_validated_against_impl", 1);
                    let rp = json!({"kind":"isa-l6","eng":"interp"});
                    match (&fresh, &got) {
                        (Ok(f), Ok(Ok((_, g)))) if f == g => {}
                        (f, g) => s.violation(&format!("interp/after-{}-execution@{}/differs-from-fresh-vm", if fail == 0 { "a-successful" } else { "a-failed" }, vm::kind_name(kind).split(':').next().unwrap()),
                            format!("a program that reads its stack slots (mask {mask:#08b}) returns {:?} on a fresh VM and {:?} on a VM whose previous execution (failure mode {fail}) wrote those slots", f, g), rp),
                    }
                }
            }
        }
    }
}

static L6_NESTED_MODE: std::sync::atomic::AtomicU8 = std::sync::atomic::AtomicU8::new(1);
fn l6_nested_helper(a: u64, _b: u64, _c: u64, _d: u64, _e: u64) -> u64 {
    crate::callseng::nested_run(L6_NESTED_MODE.load(std::sync::atomic::Ordering::Relaxed));
    a.wrapping_add(7)
}

/// A helper that itself executes another eBPF program (on a VM of its own, under each engine, on
/// the calling thread): the caller's stack slots and callee-saved registers are the caller's.
fn l6_nested(s: &mut Sink, eng: Eng) {
    for mode in 1..=3u8 {
        for depth in 0..2u8 {
            if depth > 0 && eng == Eng::Cl {
                continue;
            }
            let mut body = vec![];
            body.extend(isa::lddw(6, 0x6600_0000_0000_0066));
            body.push(isa::stdw(10, -8, 0x1234));
            body.push(isa::stdw(10, -16, 0x5678));
            body.push(isa::stdw(10, -248, 0x9abc));
            body.push(isa::mov64i(1, 100));
            body.push(isa::call_helper(2));
            body.push(isa::ldxdw(2, 10, -8));
            body.push(isa::ldxdw(3, 10, -16));
            body.push(isa::ldxdw(4, 10, -248));
            body.push(isa::add64r(0, 2));
            body.push(isa::add64r(0, 3));
            body.push(isa::add64r(0, 4));
            body.push(isa::add64r(0, 6));
            body.push(isa::EXIT);
            let prog: Vec<I> = if depth == 0 { body } else {
                let mut p = vec![isa::call_local(1), isa::EXIT];
                p.extend(body);
                p
            };
            let want = 107u64.wrapping_add(0x1234 + 0x5678 + 0x9abc).wrapping_add(0x6600_0000_0000_0066);
            let bytes = isa::enc(&prog);
            L6_NESTED_MODE.store(mode, std::sync::atomic::Ordering::Relaxed);
            s.count("evaluations", 1);
            s.count("states", 1);
            s.count("transitions", prog.len() as u64);
            s.count("traces_validated_against_impl", 1);
            let r = catch(|| {
                let mut vm = AnyVm::new(VmKind::NoData, Some(&bytes))?;
                vm.register_helper(2, l6_nested_helper)?;
                vm.compile(eng)?;
                vm.exec(eng, vm::empty_raw(), vm::empty_raw())
            });
            let rp = json!({"kind":"isa-l6","eng":eng.name()});
            match r {
                Ok(Ok(v)) if v == want => {}
                Ok(Ok(v)) => s.violation(&format!("{}/helper-reenters-library/value-mismatch", eng.name()), format!("a helper that runs a nested program under engine {mode} (1 interpreter, 2 JIT, 3 Cranelift), call depth {depth}: returned {v:#x}, the stack slots, r6 and the helper's result add up to {want:#x}"), rp),
                Ok(Err(e)) => s.violation(&format!("{}/helper-reenters-library/err", eng.name()), e, rp),
                Err(m) => s.violation(&format!("{}/helper-reenters-library/{}", eng.name(), panic_class(&m)), m, rp),
            }
        }
    }
}

/// Store-free programs in which a helper rewrites a packet byte between two loads of it
/// (straight line and in a loop), and a helper id re-bound between two compilations.
fn l6_side_effects(s: &mut Sink, eng: Eng) {
    fn hf(_: u64, _: u64, _: u64, _: u64, _: u64) -> u64 { 0x1111 }
    fn hg(_: u64, _: u64, _: u64, _: u64, _: u64) -> u64 { 0x2222 }
    let load = |kind: u8, k: i32| -> Vec<I> {
        match kind {
            0 => vec![I::new(0x30, 0, 0, 0, k)],
            1 => vec![isa::mov64i(2, 0), I::new(0x50, 0, 2, 0, k)],
            _ => vec![isa::ldxb(0, 6, k as i16)],
        }
    };
    let frob = |k: i32| -> Vec<I> { vec![isa::mov64r(1, 6), isa::add64i(1, k), isa::mov64i(2, 1), isa::call_helper(2)] };
    let image: Vec<u8> = (0..16u8).map(|x| x.wrapping_mul(37).wrapping_add(0x12)).collect();
    let pkt = Buf::new(16, 0);
    let run = |vmx: &mut AnyVm, e: Eng| -> (Out, Vec<u8>) {
        pkt.fill(&image);
        let o = vmx.exec_out(e, pkt.raw(), vm::empty_raw());
        (o, pkt.bytes().to_vec())
    };
    for l1 in 0..3u8 {
        for l2 in 0..3u8 {
            for k in [0i32, 5] {
                for shape in 0..2u8 {
                    let mut p = vec![isa::mov64r(6, 1)];
                    if shape == 0 {
                        p.extend(load(l1, k));
                        p.push(isa::mov64r(7, 0));
                        p.extend(frob(k));
                        p.extend(load(l2, k));
                        p.push(I::new(0x67, 7, 0, 0, 8));
                        p.push(I::new(0x4f, 0, 7, 0, 0));
                    } else {
                        p.push(isa::mov64i(8, 0));
                        p.push(isa::mov64i(9, 2));
                        let top = p.len();
                        p.extend(load(l1, k));
                        p.push(I::new(0x67, 8, 0, 0, 8));
                        p.push(I::new(0x4f, 8, 0, 0, 0));
                        p.extend(frob(k));
                        p.extend(load(l2, k));
                        p.push(I::new(0x0f, 8, 0, 0, 0));
                        p.push(isa::add64i(9, -1));
                        let here = p.len();
                        p.push(I::new(0x55, 9, 0, (top as i64 - here as i64 - 1) as i16, 0));
                        p.push(isa::mov64r(0, 8));
                    }
                    p.push(isa::EXIT);
                    let bytes = isa::enc(&p);
                    let rp = json!({"kind":"isa-l6","eng":eng.name()});
                    let mk = || -> Result<AnyVm, String> {
                        let mut v = AnyVm::new(VmKind::Raw, Some(&bytes))?;
                        v.register_helper(2, rbpf::helpers::memfrob)?;
                        Ok(v)
                    };
                    let mut vi = match mk() { Ok(v) => v, Err(e) => { s.violation("verifier/side-effect/rejects-template", e, rp); return; } };
                    let want = run(&mut vi, Eng::Interp);
                    let mut vc = mk().unwrap();
                    if let Err(e) = vc.compile(eng) {
                        s.violation(&format!("{}/side-effect/compile-err", eng.name()), e, rp);
                        return;
                    }
                    let got = run(&mut vc, eng);
                    s.count("evaluations", 1);
                    s.count("states", 1);
                    s.count("transitions", p.len() as u64);
                    s.count("traces_validated_against_impl", 1);
                    s.nontrivial_hashed(fnv(&bytes));
                    if got != want {
                        s.violation(&format!("{}/side-effect/value-mismatch", eng.name()), format!("store-free program with a helper (memfrob) rewriting packet byte {k} between two loads of it ({}): returned {} / packet {}, the interpreter returns {} / packet {}", isa::listing(&p).join(" | "), show_out(&got.0), hex(&got.1), show_out(&want.0), hex(&want.1)), rp);
                    }
                }
            }
        }
    }
    // helper id re-bound between two compilations
    for kind in [VmKind::NoData, VmKind::Raw, VmKind::Mbuff, VmKind::Fixed(0x40, 0x50)] {
        let bytes = isa::enc(&[isa::mov64i(1, 1), isa::call_helper(3), isa::EXIT]);
        let rp = json!({"kind":"isa-l6","eng":eng.name()});
        let r = catch(|| -> Result<Out, String> {
            let mut v = AnyVm::new(kind, Some(&bytes))?;
            v.register_helper(3, hf)?;
            v.compile(eng)?;
            v.register_helper(3, hg)?;
            v.compile(eng)?;
            let mb = Buf::new(16, 0);
            pkt.fill(&image);
            let mem = if matches!(kind, VmKind::NoData) { vm::empty_raw() } else { pkt.raw() };
            let mbr = if matches!(kind, VmKind::Mbuff) { mb.raw() } else { vm::empty_raw() };
            Ok(v.exec_out(eng, mem, mbr))
        });
        s.count("evaluations", 1);
        s.count("states", 1);
        s.count("transitions", 5);
        s.count("traces_validated_against_impl", 1);
        match r {
            Ok(Ok(Out::Ok(0x2222))) => {}
            other => s.violation(&format!("{}/rebind/value-mismatch", eng.name()), format!("register_helper(3, f); compile; register_helper(3, g); compile; execute on a {} VM gave {:?}, the interpreter calls g (0x2222)", vm::kind_name(kind).split(':').next().unwrap(), other.map(|x| x.map(|o| show_out(&o)))), rp),
        }
    }
}

fn show_out(o: &Out) -> String {
    match o {
        Out::Ok(v) => format!("{v:#x}"),
        other => format!("{other:?}"),
    }
}

pub fn replay_l5(v: &Value) -> Vec<String> {
    let eng = Eng::parse(v["eng"].as_str().unwrap());
    let mut s = Sink::new("replay", Tier::Quick, 0, 1, None, None, 3600);
    run_group(&mut s, eng, "reuse", &v.clone(), move |cs| {
        l6_check(cs, eng);
        l6_nested(cs, eng);
        if eng == Eng::Interp {
            l6_after_error(cs);
        }
        if eng != Eng::Interp {
            l6_side_effects(cs, eng);
        }
    });
    let r = s.finish();
    r["violations"].as_array().unwrap().iter().map(|x| format!("{}: {}", x["sig"].as_str().unwrap(), x["detail"].as_str().unwrap())).collect()
}

// ------------------------------------------------------------------------------------------

pub fn run(s: &mut Sink, eng: Eng) {
    let thorough = s.tier == Tier::Thorough;
    s.meta.insert("alphabet".into(), json!({
        "V64": V64.len(), "I32": I32S.len(), "O16": O16.len(),
        "registers": "dst 0..9 x src 0..10 (every pair)",
        "layer1": "every supported opcode; ALU/JMP reg forms: all register pairs x V64^2; imm forms: all dst x I32 x V64; ldx/st/stx/xadd: dst x src x O16 x 4 scratch alignments + stack via r10; lddw: I32^2 halves; ldabs/ldind: boundary immediates and src values; helper call",
    }));
    s.meta.insert("bound".into(), json!({"layer1": "depth 1 (one transition, full register frame)", "tier": if thorough {"thorough"} else {"quick"}}));
    s.meta.insert("rule".into(), json!("cases = (program, input) pairs enumerated as Cartesian products of the alphabets; non-trivial = inside the claim (reference result defined) and the transition under test changed a register, memory or control flow; every case is a distinct product element"));
    s.meta.insert("assumptions".into(), json!(["reference eBPF machine in mc/src/refmodel.rs is the oracle for the interpreter; the interpreter is the oracle for the compilers where the model says the result is defined", "operand values outside V64 / immediates outside I32 / offsets outside O16 are not covered"]));
    let mut g = 0u64;
    let only = std::env::var("VERIF_LAYER").ok();
    let want = |l: &str| only.as_deref().map_or(true, |o| o.split(',').any(|x| x == l));
    if want("1") {
        run_layer1(s, eng, &mut g);
    }
    if want("5") {
        run_layer5(s, eng, &mut g);
    }
    if want("6") {
        run_layer6(s, eng, &mut g);
    }
    if want("4") {
        run_layer4(s, eng, &mut g);
    }
    if want("3") {
        run_layer3(s, eng, &mut g);
    }
    if want("2") {
        run_layer2(s, eng, &mut g);
    }
}
