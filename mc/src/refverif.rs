//! Reference predicate for C06: "the default verifier accepts exactly the well-formed programs",
//! transcribed clause by clause from the property statement (DESIGN.md A.4).

use crate::isa::{self, Kind, I};

pub const MAX_INSNS: usize = 1_000_000;

/// Ok(()) if well formed, Err(clause) naming the first clause that fails.
pub fn well_formed(b: &[u8]) -> Result<(), &'static str> {
    if b.is_empty() {
        return Err("empty");
    }
    if b.len() % 8 != 0 {
        return Err("length-not-multiple-of-8");
    }
    let n = b.len() / 8;
    if n > MAX_INSNS {
        return Err("too-long");
    }
    let insn = |k: usize| I::decode(&b[k * 8..k * 8 + 8]);
    let mut i = 0usize;
    let mut last_real = 0usize;
    while i < n {
        let x = insn(i);
        last_real = i;
        let Some(k) = isa::kind(x.opc) else { return Err("unsupported-opcode") };
        if x.src > 10 {
            return Err("src-register");
        }
        let store_base = matches!(k, Kind::St(_) | Kind::Stx(_) | Kind::Xadd(_));
        if x.dst > 10 {
            return Err("dst-register");
        }
        if x.dst == 10 && !store_base {
            return Err(if matches!(k, Kind::LdDw) { "lddw-into-r10" } else { "write-to-r10" });
        }
        match k {
            Kind::End { .. } => {
                if !matches!(x.imm, 16 | 32 | 64) {
                    return Err("byte-swap-width");
                }
            }
            Kind::Xadd(_) => {
                if x.imm != 0 {
                    return Err("atomic-immediate");
                }
            }
            Kind::LdDw => {
                if i + 1 >= n {
                    return Err("lddw-truncated");
                }
                if insn(i + 1).opc != 0 {
                    return Err("lddw-second-half");
                }
                i += 1;
            }
            Kind::Ja | Kind::Jcc { .. } => {
                if x.off == -1 {
                    return Err("jump-to-self");
                }
                let t = i as i64 + 1 + x.off as i64;
                if t < 0 || t >= n as i64 {
                    return Err("jump-out-of-program");
                }
                if insn(t as usize).opc == 0 {
                    return Err("jump-into-lddw");
                }
            }
            Kind::Call => match x.src {
                0 => {}
                1 => {
                    let t = i as i64 + 1 + x.imm as i64;
                    if t < 0 || t >= n as i64 {
                        return Err("call-out-of-program");
                    }
                    if insn(t as usize).opc == 0 {
                        return Err("call-into-lddw");
                    }
                }
                _ => return Err("call-kind"),
            },
            _ => {}
        }
        i += 1;
    }
    // execution cannot run past the last instruction: it is an exit or an unconditional jump
    let l = insn(last_real);
    if last_real != n - 1 {
        // the last slot is the second half of a wide load
        return Err("last-insn-not-exit-or-ja");
    }
    match isa::kind(l.opc) {
        Some(Kind::Exit) | Some(Kind::Ja) => Ok(()),
        _ => Err("last-insn-not-exit-or-ja"),
    }
}
