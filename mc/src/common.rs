//! Shared infrastructure: sink (counters, violations, samples, sharding, progress, deadline),
//! hex helpers, fork isolation.

use serde_json::{json, Map, Value};
use std::collections::{BTreeMap, HashSet};
use std::time::{Duration, Instant};

#[derive(Clone, Copy, PartialEq, Eq, Debug)]
pub enum Tier {
    Quick,
    Thorough,
}

impl Tier {
    pub fn pick<T>(self, q: T, t: T) -> T {
        match self {
            Tier::Quick => q,
            Tier::Thorough => t,
        }
    }
    pub fn name(self) -> &'static str {
        match self {
            Tier::Quick => "quick",
            Tier::Thorough => "thorough",
        }
    }
}

pub const MAX_STORED_PER_SIG: u64 = 3;
const PROGRESS_LEN: usize = 1 << 16;

pub struct Sink {
    pub prop: String,
    pub tier: Tier,
    pub shard: u64,
    pub nshards: u64,
    pub resume_after: Option<u64>,
    pub seed: u64,
    progress: *mut u8,
    counters: BTreeMap<String, u64>,
    outcomes: BTreeMap<String, u64>,
    violations: Vec<Value>,
    viol_count: BTreeMap<String, u64>,
    samples: Vec<Value>,
    sample_keys: HashSet<String>,
    pub meta: Map<String, Value>,
    distinct: HashSet<u64>,
    cuts: Vec<String>,
    completed: Vec<String>,
    start: Instant,
    deadline: Instant,
}

impl Sink {
    pub fn new(prop: &str, tier: Tier, shard: u64, nshards: u64, resume_after: Option<u64>, progress_path: Option<&str>, wall_cap_s: u64) -> Sink {
        let progress = match progress_path {
            Some(p) => unsafe {
                let c = std::ffi::CString::new(p).unwrap();
                let fd = libc::open(c.as_ptr(), libc::O_RDWR | libc::O_CREAT, 0o644);
                assert!(fd >= 0, "cannot open progress file");
                assert_eq!(libc::ftruncate(fd, PROGRESS_LEN as i64), 0);
                let m = libc::mmap(std::ptr::null_mut(), PROGRESS_LEN, libc::PROT_READ | libc::PROT_WRITE, libc::MAP_SHARED, fd, 0);
                assert!(m != libc::MAP_FAILED);
                libc::close(fd);
                m as *mut u8
            },
            None => std::ptr::null_mut(),
        };
        let start = Instant::now();
        Sink {
            prop: prop.to_string(),
            tier,
            shard,
            nshards,
            resume_after,
            seed: 0,
            progress,
            counters: BTreeMap::new(),
            outcomes: BTreeMap::new(),
            violations: vec![],
            viol_count: BTreeMap::new(),
            samples: vec![],
            sample_keys: HashSet::new(),
            meta: Map::new(),
            distinct: HashSet::new(),
            cuts: vec![],
            completed: vec![],
            start,
            deadline: start + Duration::from_secs(wall_cap_s),
        }
    }

    /// Is group `idx` ours (shard assignment) and not already done before a restart?
    #[inline]
    pub fn take(&self, idx: u64) -> bool {
        if idx % self.nshards != self.shard {
            return false;
        }
        match self.resume_after {
            Some(r) => idx > r,
            None => true,
        }
    }

    /// Publish "about to run group idx" with a description usable for crash attribution.
    /// `class` is the case-class part of a signature; `replay` a replay object.
    pub fn mark(&self, idx: u64, class: &str, replay: &Value) {
        if self.progress.is_null() {
            return;
        }
        let s = json!({"class": class, "replay": replay}).to_string();
        let b = s.as_bytes();
        let n = b.len().min(PROGRESS_LEN - 16);
        unsafe {
            std::ptr::copy_nonoverlapping(b.as_ptr(), self.progress.add(16), n);
            std::ptr::write_volatile(self.progress.add(8) as *mut u64, n as u64);
            std::ptr::write_volatile(self.progress as *mut u64, idx + 1);
        }
    }

    /// Cheap variant: only the index (description left from the last `mark`, length set to 0).
    #[inline]
    pub fn mark_idx(&self, idx: u64) {
        if self.progress.is_null() {
            return;
        }
        unsafe {
            std::ptr::write_volatile(self.progress.add(8) as *mut u64, 0);
            std::ptr::write_volatile(self.progress as *mut u64, idx + 1);
        }
    }

    #[inline]
    pub fn count(&mut self, key: &str, n: u64) {
        if let Some(c) = self.counters.get_mut(key) {
            *c += n;
        } else {
            self.counters.insert(key.to_string(), n);
        }
    }

    #[inline]
    pub fn outcome(&mut self, key: &str, n: u64) {
        if let Some(c) = self.outcomes.get_mut(key) {
            *c += n;
        } else {
            self.outcomes.insert(key.to_string(), n);
        }
    }

    /// Count a non-trivial case whose distinctness is established by hashing its description
    /// (used where a generator can produce the same case twice).
    pub fn nontrivial_hashed(&mut self, h: u64) {
        if self.distinct.len() < 20_000_000 {
            if self.distinct.insert(h) {
                self.count("distinct_nontrivial", 1);
            }
        } else {
            // conservative: stop counting rather than over-count
            self.count("distinct_nontrivial_uncounted_after_cap", 1);
        }
    }

    pub fn violation(&mut self, sig: &str, detail: String, replay: Value) {
        let c = self.viol_count.entry(sig.to_string()).or_insert(0);
        *c += 1;
        if *c <= MAX_STORED_PER_SIG {
            self.violations.push(json!({"sig": sig, "detail": detail, "replay": replay}));
        }
    }

    pub fn n_violations(&self) -> u64 {
        self.viol_count.values().sum()
    }

    /// Keep at most one sample per key (and at most 12 overall).
    pub fn sample(&mut self, key: &str, v: impl FnOnce() -> Value) {
        if self.samples.len() < 12 && !self.sample_keys.contains(key) {
            self.sample_keys.insert(key.to_string());
            self.samples.push(json!({"kind": key, "case": v()}));
        }
    }

    pub fn expired(&self) -> bool {
        Instant::now() >= self.deadline
    }

    pub fn elapsed_s(&self) -> f64 {
        self.start.elapsed().as_secs_f64()
    }

    /// Record that a planned product was cut short by the wall-clock cap.
    pub fn cut(&mut self, what: &str) {
        if !self.cuts.iter().any(|c| c == what) {
            self.cuts.push(what.to_string());
        }
    }

    pub fn done(&mut self, what: &str) {
        if !self.completed.iter().any(|c| c == what) {
            self.completed.push(what.to_string());
            if std::env::var_os("RBPF_MC_TIMING").is_some() {
                eprintln!("TIMING {:.1}s done: {}", self.elapsed_s(), what);
            }
        }
    }

    /// An empty sink for a forked child working on one group of this sink's run.
    pub fn child(&self) -> Sink {
        let mut c = Sink::new(&self.prop, self.tier, 0, 1, None, None, 3600);
        c.seed = self.seed;
        c
    }

    /// Merge what a child's sink reported (`finish()` value).
    pub fn absorb(&mut self, v: &Value) {
        if let Some(m) = v["counters"].as_object() {
            for (k, n) in m {
                self.count(k, n.as_u64().unwrap_or(0));
            }
        }
        if let Some(m) = v["outcomes"].as_object() {
            for (k, n) in m {
                self.outcome(k, n.as_u64().unwrap_or(0));
            }
        }
        let mut stored: BTreeMap<String, u64> = BTreeMap::new();
        if let Some(a) = v["violations"].as_array() {
            for x in a {
                let sig = x["sig"].as_str().unwrap_or("?").to_string();
                *stored.entry(sig.clone()).or_insert(0) += 1;
                self.violation(&sig, x["detail"].as_str().unwrap_or("").to_string(), x["replay"].clone());
            }
        }
        if let Some(m) = v["violation_counts"].as_object() {
            for (k, n) in m {
                let extra = n.as_u64().unwrap_or(0).saturating_sub(*stored.get(k).unwrap_or(&0));
                *self.viol_count.entry(k.clone()).or_insert(0) += extra;
            }
        }
        if let Some(a) = v["samples"].as_array() {
            for x in a {
                let key = x["kind"].as_str().unwrap_or("?").to_string();
                let val = x["case"].clone();
                self.sample(&key, || val);
            }
        }
    }

    pub fn finish(self) -> Value {
        json!({
            "prop": self.prop,
            "tier": self.tier.name(),
            "shard": self.shard,
            "nshards": self.nshards,
            "counters": self.counters,
            "outcomes": self.outcomes,
            "violations": self.violations,
            "violation_counts": self.viol_count,
            "samples": self.samples,
            "meta": self.meta,
            "cuts": self.cuts,
            "completed": self.completed,
            "wall_s": self.start.elapsed().as_secs_f64(),
        })
    }
}

pub fn hex(b: &[u8]) -> String {
    let mut s = String::with_capacity(b.len() * 2);
    for x in b {
        s.push_str(&format!("{:02x}", x));
    }
    s
}

pub fn unhex(s: &str) -> Vec<u8> {
    let s = s.as_bytes();
    let mut v = Vec::with_capacity(s.len() / 2);
    let d = |c: u8| -> u8 {
        match c {
            b'0'..=b'9' => c - b'0',
            b'a'..=b'f' => c - b'a' + 10,
            b'A'..=b'F' => c - b'A' + 10,
            _ => panic!("bad hex"),
        }
    };
    let mut i = 0;
    while i + 1 < s.len() {
        v.push(d(s[i]) << 4 | d(s[i + 1]));
        i += 2;
    }
    v
}

pub fn fnv(b: &[u8]) -> u64 {
    let mut h: u64 = 0xcbf29ce484222325;
    for x in b {
        h ^= *x as u64;
        h = h.wrapping_mul(0x100000001b3);
    }
    h
}

/// Silence the default panic hook (panics inside rbpf are observations, not noise) and
/// run `f` under catch_unwind; returns Err(message) on panic.
static CATCH_DEPTH: std::sync::atomic::AtomicUsize = std::sync::atomic::AtomicUsize::new(0);

pub fn catch<T>(f: impl FnOnce() -> T) -> Result<T, String> {
    CATCH_DEPTH.fetch_add(1, std::sync::atomic::Ordering::Relaxed);
    let r = std::panic::catch_unwind(std::panic::AssertUnwindSafe(f));
    CATCH_DEPTH.fetch_sub(1, std::sync::atomic::Ordering::Relaxed);
    match r {
        Ok(v) => Ok(v),
        Err(e) => {
            let msg = if let Some(s) = e.downcast_ref::<&str>() {
                s.to_string()
            } else if let Some(s) = e.downcast_ref::<String>() {
                s.clone()
            } else {
                "<non-string panic payload>".to_string()
            };
            Err(msg)
        }
    }
}

/// Panics inside `catch` are observations of the subject and stay silent; a panic anywhere
/// else is a harness bug and is printed.
pub fn quiet_panics() {
    std::panic::set_hook(Box::new(|info| {
        if CATCH_DEPTH.load(std::sync::atomic::Ordering::Relaxed) == 0 {
            eprintln!("HARNESS PANIC: {info}");
        }
    }));
}

/// Short classifier for a panic message (used in signatures).
pub fn panic_class(msg: &str) -> String {
    let m = msg.to_lowercase();
    let c = if m.contains("unwrap()") || m.contains("expect(") {
        "unwrap"
    } else if m.contains("overflow") {
        "overflow"
    } else if m.contains("unreachable") {
        "unreachable"
    } else if m.contains("divide by zero") || m.contains("division by zero") || m.contains("remainder with a divisor of zero") {
        "div0"
    } else if m.contains("cannot reach instruction") {
        "insn-out-of-range"
    } else if m.contains("index out of bounds") || m.contains("out of range") {
        "index"
    } else if m.contains("unwrap") {
        "unwrap"
    } else if m.contains("assertion") {
        "assert"
    } else if m.contains("not implemented") || m.contains("unimplemented") {
        "unimplemented"
    } else {
        "other"
    };
    format!("panic:{}", c)
}

// ------------------------------------------------------------------------------------------
// Fork isolation

#[derive(Debug, Clone)]
pub enum ChildEnd {
    /// Child returned normally and sent these bytes.
    Ok(Vec<u8>),
    /// Child was killed by this signal.
    Signal(i32),
    /// Child exited with a non-zero status without reporting.
    Exit(i32),
}

pub fn signame(s: i32) -> &'static str {
    match s {
        libc::SIGSEGV => "SIGSEGV",
        libc::SIGBUS => "SIGBUS",
        libc::SIGILL => "SIGILL",
        libc::SIGFPE => "SIGFPE",
        libc::SIGABRT => "SIGABRT",
        libc::SIGALRM => "SIGALRM(hang)",
        libc::SIGXCPU => "SIGALRM(hang)", // the CPU-time limit of in_child: same verdict, same signature
        libc::SIGKILL => "SIGKILL",
        libc::SIGTRAP => "SIGTRAP",
        _ => "SIG?",
    }
}

/// Run `f` on a thread with a stack of `stack_bytes` inside a forked child: code whose recursion
/// depth grows with its input overflows a small stack (the process dies with SIGSEGV / SIGABRT),
/// code that iterates does not. Library users do call into rbpf from threads with small stacks.
pub fn in_small_stack_child(alarm_s: u32, stack_bytes: usize, f: impl FnOnce() -> Vec<u8> + Send + 'static) -> ChildEnd {
    in_child(alarm_s, move || {
        let h = std::thread::Builder::new().stack_size(stack_bytes).spawn(f).expect("spawn");
        match h.join() {
            Ok(v) => v,
            Err(_) => b"PANIC".to_vec(),
        }
    })
}

/// Run `f` in a forked child (the calling process must be single-threaded). The child's
/// returned bytes come back through a pipe. `alarm_s` bounds the child's run time.
pub fn in_child(alarm_s: u32, f: impl FnOnce() -> Vec<u8>) -> ChildEnd {
    unsafe {
        let mut fds = [0i32; 2];
        assert_eq!(libc::pipe(fds.as_mut_ptr()), 0);
        let pid = libc::fork();
        assert!(pid >= 0, "fork failed");
        if pid == 0 {
            libc::close(fds[0]);
            // default dispositions so that faults kill us with the right signal
            for s in [libc::SIGSEGV, libc::SIGBUS, libc::SIGILL, libc::SIGFPE, libc::SIGABRT, libc::SIGALRM] {
                libc::signal(s, libc::SIG_DFL);
            }
            // the limit is on the child's CPU time (SIGXCPU), so that a loaded machine cannot turn a
            // slow group into a "hang"; the wall-clock alarm is a distant backstop
            let lim = libc::rlimit { rlim_cur: alarm_s as u64, rlim_max: alarm_s as u64 + 5 };
            libc::setrlimit(libc::RLIMIT_CPU, &lim);
            libc::signal(libc::SIGXCPU, libc::SIG_DFL);
            libc::alarm(alarm_s.saturating_mul(20));
            let out = match std::panic::catch_unwind(std::panic::AssertUnwindSafe(f)) {
                Ok(v) => v,
                Err(_) => {
                    libc::_exit(101);
                }
            };
            let mut off = 0usize;
            while off < out.len() {
                let n = libc::write(fds[1], out.as_ptr().add(off) as *const libc::c_void, out.len() - off);
                if n <= 0 {
                    libc::_exit(102);
                }
                off += n as usize;
            }
            libc::close(fds[1]);
            libc::_exit(0);
        }
        libc::close(fds[1]);
        let mut buf = Vec::new();
        let mut tmp = [0u8; 65536];
        loop {
            let n = libc::read(fds[0], tmp.as_mut_ptr() as *mut libc::c_void, tmp.len());
            if n > 0 {
                buf.extend_from_slice(&tmp[..n as usize]);
            } else if n == 0 {
                break;
            } else {
                let e = *libc::__errno_location();
                if e == libc::EINTR {
                    continue;
                }
                break;
            }
        }
        libc::close(fds[0]);
        let mut status = 0i32;
        loop {
            let r = libc::waitpid(pid, &mut status, 0);
            if r == pid {
                break;
            }
            if r < 0 && *libc::__errno_location() != libc::EINTR {
                break;
            }
        }
        if libc::WIFSIGNALED(status) {
            ChildEnd::Signal(libc::WTERMSIG(status))
        } else if libc::WIFEXITED(status) && libc::WEXITSTATUS(status) == 0 {
            ChildEnd::Ok(buf)
        } else {
            ChildEnd::Exit(libc::WEXITSTATUS(status))
        }
    }
}

// ------------------------------------------------------------------------------------------
// Shared value alphabets (DESIGN.md section 3.2)

pub const V64: [u64; 31] = [
    0, 1, 2, 3, 0x1f, 0x20, 0x21, 0x3f, 0x40, 0x41, 0x7f, 0x80, 0xff, 0x100, 0x7fff, 0x8000, 0xffff,
    0x7fff_ffff, 0x8000_0000, 0xffff_ffff, 0x1_0000_0000, 0x1_0000_0001, 0x7fff_ffff_ffff_ffff,
    0x8000_0000_0000_0000, 0xffff_ffff_0000_0000, 0xffff_ffff_7fff_ffff, 0xffff_ffff_8000_0000,
    0xffff_ffff_ffff_fffe, 0xffff_ffff_ffff_ffff, 0x0123_4567_89ab_cdef, 0xfedc_ba98_7654_3210,
];

pub const I32S: [i32; 30] = [
    0, 1, -1, 2, -2, 7, 8, 15, 16, 31, 32, 33, 63, 64, 65, 127, 128, -128, -129, 255, 256, 0x7fff,
    0x8000, 0xffff, 0x10000, i32::MAX, i32::MIN, i32::MIN + 1, 0x12345678, -0x12345678,
];

pub const O16: [i16; 12] = [0, 1, 7, 8, -1, -8, 127, 128, -128, -129, 32767, -32768];

// ------------------------------------------------------------------------------------------
// Corpus recorder (C20): check functions of the text engine hand their inputs over instead of
// checking when recording is on.

thread_local! {
    static REC: std::cell::RefCell<Option<Vec<Value>>> = const { std::cell::RefCell::new(None) };
}

pub fn rec_start() {
    REC.with(|r| *r.borrow_mut() = Some(vec![]));
}
pub fn rec_on() -> bool {
    REC.with(|r| r.borrow().is_some())
}
pub fn rec_push(v: Value) {
    REC.with(|r| {
        if let Some(x) = r.borrow_mut().as_mut() {
            x.push(v)
        }
    });
}
pub fn rec_take() -> Vec<Value> {
    REC.with(|r| r.borrow_mut().take().unwrap_or_default())
}
