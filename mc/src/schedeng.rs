//! Engine `sched` (C18): stateless controlled-scheduler search over real machine code.
//!
//! The subject is a forked copy of this process running N real threads, each executing K
//! eBPF atomic adds (interpreter / JIT / Cranelift) on one shared word. The tracer (this
//! process) owns the schedule: hardware watch-points (debug registers, programmed per thread
//! with ptrace) report every access to the word, only one thread runs at a time, and a DFS
//! enumerates every interleaving of the accesses. loom/shuttle cannot be used here: the atomic
//! is a machine instruction emitted at run time or an atomic reached through a raw pointer.

use crate::common::*;
use crate::isa::{self, I};
use crate::vm::{AnyVm, Buf, Eng, VmKind};
use serde_json::{json, Value};
use std::sync::atomic::{AtomicU64, Ordering};

#[derive(Clone, Copy, Debug, PartialEq, Eq)]
pub enum Sub {
    Interp,
    Jit,
    Cl,
    /// deliberately non-atomic reference subject (self-test of the explorer)
    Bad,
}

impl Sub {
    fn name(self) -> &'static str {
        match self {
            Sub::Interp => "interp",
            Sub::Jit => "jit",
            Sub::Cl => "cranelift",
            Sub::Bad => "nonatomic-selftest",
        }
    }
}

#[derive(Clone, Debug)]
pub struct Cfg {
    pub subs: Vec<Sub>,
    pub k: usize,
    pub width: u8,
    pub init: u64,
    pub addends: Vec<u64>,
    /// pointer register of the xadd
    pub preg: u8,
    /// interpreter: where the word sits in the registered range: 0 = range is exactly the word,
    /// 1 = first word of a 32-byte range, 2 = last word of a 32-byte range
    pub range_mode: u8,
    /// 0: k adds in a row; 1: a loop whose first instruction is the add (reached by the back
    /// edge); 2: the add is the target of a taken forward branch; 3: the add is the first
    /// instruction of a local function (not Cranelift)
    pub shape: u8,
    /// offset field of the add; the pointer register holds word address - off
    pub off: i16,
}

const WORD_OFF: usize = 24;

fn xadd_prog(cfg: &Cfg, t: usize, addr: u64) -> Vec<I> {
    let p = cfg.preg;
    let vreg = if p == 2 { 3 } else { 2 };
    let opc = if cfg.width == 4 { 0xc3 } else { 0xdb };
    let mut v = vec![];
    match cfg.subs[t] {
        Sub::Cl => {
            // the word lives in the packet (Cranelift knows no other shared region)
            v.push(isa::mov64r(p, 1));
            v.push(isa::add64i(p, WORD_OFF as i32 - cfg.off as i32));
        }
        _ => v.extend(isa::lddw(p, addr.wrapping_sub(cfg.off as i64 as u64))),
    }
    v.extend(isa::lddw(vreg, cfg.addends[t]));
    let xadd = I::new(opc, p, vreg, cfg.off, 0);
    let shape = if cfg.shape == 3 && cfg.subs[t] == Sub::Cl { 1 } else { cfg.shape };
    // a counter register that is neither the pointer nor the value register
    let creg = [4u8, 5, 0].into_iter().find(|r| *r != p && *r != vreg).unwrap();
    match shape {
        1 => {
            v.push(isa::mov64i(creg, cfg.k as i32));
            v.push(xadd);
            v.push(isa::add64i(creg, -1));
            v.push(I::new(0x55, creg, 0, -3, 0)); // jne creg, 0, back to the add
        }
        2 => {
            for _ in 0..cfg.k {
                v.push(isa::mov64i(creg, 0));
                v.push(I::new(0x15, creg, 0, 1, 0)); // jeq creg, 0, +1: taken
                v.push(isa::mov64i(creg, 1));
                v.push(xadd);
            }
        }
        3 => {
            // main: k calls of f; f: add ; exit
            for i in 0..cfg.k {
                v.push(isa::call_local((cfg.k - i - 1) as i32 + 2));
            }
            v.push(isa::mov64i(0, 0));
            v.push(isa::EXIT);
            v.push(xadd);
            v.push(isa::EXIT);
            return v;
        }
        _ => {
            for _ in 0..cfg.k {
                v.push(xadd);
            }
        }
    }
    v.push(isa::mov64i(0, 0));
    v.push(isa::EXIT);
    v
}

// ------------------------------------------------------------------------------------------
// subject side (runs in the forked child)

static RESULTS: [AtomicU64; 8] = [AtomicU64::new(0), AtomicU64::new(0), AtomicU64::new(0), AtomicU64::new(0), AtomicU64::new(0), AtomicU64::new(0), AtomicU64::new(0), AtomicU64::new(0)];

fn ready_signal(t: usize) -> i32 {
    libc::SIGRTMIN() + 1 + t as i32
}

fn subject_main(cfg: &Cfg, shared: &Buf, report_fd: i32) -> ! {
    unsafe {
        libc::ptrace(libc::PTRACE_TRACEME, 0, 0, 0);
        libc::raise(libc::SIGSTOP);
    }
    let base = shared.addr();
    let addr = base + WORD_OFF as u64;
    let len = shared.len;
    let mut handles = vec![];
    for t in 0..cfg.subs.len() {
        let cfg = cfg.clone();
        handles.push(std::thread::spawn(move || {
            let sub = cfg.subs[t];
            let prog = isa::enc(&xadd_prog(&cfg, t, addr));
            let mut vmx = if sub != Sub::Bad {
                let mut v = AnyVm::new(VmKind::Raw, Some(&prog)).expect("load");
                if sub == Sub::Interp {
                    let (s, e) = match cfg.range_mode {
                        0 => (addr, addr + cfg.width as u64),
                        1 => (addr, addr + 32),
                        _ => (addr + cfg.width as u64 - 32, addr + cfg.width as u64),
                    };
                    v.register_allowed_memory(s..e);
                }
                v.compile(match sub {
                    Sub::Jit => Eng::Jit,
                    Sub::Cl => Eng::Cl,
                    _ => Eng::Interp,
                })
                .expect("compile");
                Some(v)
            } else {
                None
            };
            let mut dummy = [0u8; 16];
            // ---- ready marker: from here on the tracer single-steps this thread ----
            unsafe { libc::raise(ready_signal(t)) };
            let ok = match sub {
                Sub::Bad => {
                    for _ in 0..cfg.k {
                        unsafe {
                            if cfg.width == 4 {
                                let p = addr as *mut u32;
                                let v = std::ptr::read_volatile(p);
                                std::ptr::write_volatile(p, v.wrapping_add(cfg.addends[t] as u32));
                            } else {
                                let p = addr as *mut u64;
                                let v = std::ptr::read_volatile(p);
                                std::ptr::write_volatile(p, v.wrapping_add(cfg.addends[t]));
                            }
                        }
                    }
                    true
                }
                Sub::Cl => vmx.as_mut().unwrap().exec(Eng::Cl, (base as *mut u8, len), crate::vm::empty_raw()).is_ok(),
                Sub::Jit => vmx.as_mut().unwrap().exec(Eng::Jit, (dummy.as_mut_ptr(), 16), crate::vm::empty_raw()).is_ok(),
                Sub::Interp => vmx.as_mut().unwrap().exec(Eng::Interp, (dummy.as_mut_ptr(), 16), crate::vm::empty_raw()).is_ok(),
            };
            // ---- done marker ----
            unsafe { libc::raise(libc::SIGUSR2) };
            RESULTS[t].store(if ok { 1 } else { 2 }, Ordering::SeqCst);
        }));
    }
    for h in handles {
        let _ = h.join();
    }
    let mut out = vec![];
    for t in 0..cfg.subs.len() {
        out.push(RESULTS[t].load(Ordering::SeqCst) as u8);
    }
    unsafe {
        libc::write(report_fd, out.as_ptr() as *const libc::c_void, out.len());
        libc::_exit(0);
    }
}

// ------------------------------------------------------------------------------------------
// tracer side

fn dr_offset(i: usize) -> usize {
    std::mem::offset_of!(libc::user, u_debugreg) + i * 8
}
fn rip_offset() -> usize {
    std::mem::offset_of!(libc::user, regs) + std::mem::offset_of!(libc::user_regs_struct, rip)
}

unsafe fn pt(req: libc::c_uint, pid: i32, addr: usize, data: usize) -> i64 {
    *libc::__errno_location() = 0;
    libc::ptrace(req, pid, addr, data)
}

fn set_watch(tid: i32, addr: u64, width: u8) -> bool {
    unsafe {
        let lenbits: usize = if width == 4 { 3 } else { 2 };
        let dr7: usize = 1 | (3 << 16) | (lenbits << 18);
        if pt(libc::PTRACE_POKEUSER, tid, dr_offset(0), addr as usize) != 0 {
            return false;
        }
        if pt(libc::PTRACE_POKEUSER, tid, dr_offset(6), 0) != 0 {
            return false;
        }
        pt(libc::PTRACE_POKEUSER, tid, dr_offset(7), dr7) == 0
    }
}

fn wait_tid(tid: i32) -> (i32, i32) {
    let mut st = 0i32;
    loop {
        let r = unsafe { libc::waitpid(tid, &mut st, libc::__WALL) };
        if r == tid {
            return (r, st);
        }
        if r < 0 && unsafe { *libc::__errno_location() } != libc::EINTR {
            return (r, 0);
        }
    }
}

#[derive(Clone, Debug, PartialEq, Eq)]
pub struct Event {
    pub thread: usize,
    pub class: &'static str,
    pub locked: bool,
    pub before: u64,
    pub after: u64,
}

#[derive(Debug)]
pub struct Exec {
    pub events: Vec<Event>,
    pub per_thread: Vec<usize>,
    pub final_word: u64,
    pub neighbours_ok: bool,
    pub thread_ok: Vec<u8>,
    pub steps: u64,
    pub error: Option<String>,
    /// decision points: (thread whose access happened here, the other threads that had not finished)
    pub points: Vec<(usize, Vec<usize>)>,
    /// the prefix asked for a thread that ended without touching the word again: the execution is
    /// equivalent to one in which that thread is not chosen there (explored separately)
    pub redundant: bool,
}

fn read_word(shared: &Buf, width: u8) -> u64 {
    // MAP_SHARED: the tracer sees the subject's memory directly
    let b = shared.bytes();
    if width == 4 {
        u32::from_le_bytes(b[WORD_OFF..WORD_OFF + 4].try_into().unwrap()) as u64
    } else {
        u64::from_le_bytes(b[WORD_OFF..WORD_OFF + 8].try_into().unwrap())
    }
}

/// Classify the instruction at `code` (start known exactly, from single-stepping).
fn classify(code: &[u8], modrm_is_mem_required: bool) -> Option<(&'static str, bool)> {
    let mut i = 0;
    let mut lock = false;
    while i < code.len() {
        match code[i] {
            0xf0 => {
                lock = true;
                i += 1;
            }
            0xf2 | 0xf3 | 0x66 | 0x67 | 0x2e | 0x3e | 0x26 | 0x36 | 0x64 | 0x65 => i += 1,
            _ => break,
        }
    }
    if i < code.len() && (0x40..=0x4f).contains(&code[i]) {
        i += 1;
    }
    if i + 1 >= code.len() {
        return None;
    }
    let op = code[i];
    let (op2, modrm) = if op == 0x0f { (Some(code[i + 1]), code.get(i + 2).copied()?) } else { (None, code[i + 1]) };
    let is_mem = modrm >> 6 != 3;
    let reg = (modrm >> 3) & 7;
    if modrm_is_mem_required && !is_mem {
        return None;
    }
    let cls = match (op, op2) {
        (0x0f, Some(0xc0 | 0xc1)) => "rmw",       // xadd
        (0x0f, Some(0xb0 | 0xb1)) => "cas",       // cmpxchg (writes only when the comparison succeeds)
        (0x0f, Some(0xb6 | 0xb7 | 0xbe | 0xbf)) => "load", // movzx / movsx
        (0x86 | 0x87, None) => {
            lock = true; // xchg with memory is always locked
            "rmw"
        }
        (0x00 | 0x01 | 0x08 | 0x09 | 0x10 | 0x11 | 0x18 | 0x19 | 0x20 | 0x21 | 0x28 | 0x29 | 0x30 | 0x31, None) => "rmw",
        (0x02 | 0x03 | 0x0a | 0x0b | 0x12 | 0x13 | 0x1a | 0x1b | 0x22 | 0x23 | 0x2a | 0x2b | 0x32 | 0x33 | 0x38..=0x3b | 0x84 | 0x85, None) => "load",
        (0x80 | 0x81 | 0x83, None) => {
            if reg == 7 {
                "load"
            } else {
                "rmw"
            }
        }
        (0xfe | 0xff, None) if reg <= 1 => "rmw",
        (0xf6 | 0xf7, None) if reg == 2 || reg == 3 => "rmw",
        (0xf6 | 0xf7, None) if reg == 0 => "load",
        (0x88 | 0x89 | 0xc6 | 0xc7, None) => "store",
        (0x8a | 0x8b, None) => "load",
        _ => return None,
    };
    Some((cls, lock))
}

/// Upper bound on the accesses of one execution (a retry loop that never succeeds would otherwise
/// make the execution space infinite).
const MAX_EVENTS: usize = 64;

/// One execution. `prefix[i]` = the thread that must perform the i-th access to the word; after
/// the prefix the canonical choice is taken (the lowest-numbered thread that has not finished).
/// Nothing about the subject is assumed beforehand: the number of accesses a thread performs may
/// depend on the schedule (a compare-exchange loop retries), so the set of threads that can be
/// chosen at a decision point is discovered while running and recorded in `points`.
pub fn execute(cfg: &Cfg, prefix: &[usize]) -> Exec {
    let n = cfg.subs.len();
    let shared = Buf::new(64, 0);
    let mut initb = vec![0xa5u8; 64];
    if cfg.width == 4 {
        initb[WORD_OFF..WORD_OFF + 4].copy_from_slice(&(cfg.init as u32).to_le_bytes());
    } else {
        initb[WORD_OFF..WORD_OFF + 8].copy_from_slice(&cfg.init.to_le_bytes());
    }
    shared.fill(&initb);
    let addr = shared.addr() + WORD_OFF as u64;
    let mut ex = Exec { events: vec![], per_thread: vec![0; n], final_word: 0, neighbours_ok: true, thread_ok: vec![], steps: 0, error: None, points: vec![], redundant: false };
    let mut fds = [0i32; 2];
    unsafe {
        assert_eq!(libc::pipe(fds.as_mut_ptr()), 0);
    }
    let pid = unsafe { libc::fork() };
    assert!(pid >= 0);
    if pid == 0 {
        unsafe { libc::close(fds[0]) };
        subject_main(cfg, &shared, fds[1]);
    }
    unsafe { libc::close(fds[1]) };
    let fail = |ex: &mut Exec, msg: String| {
        ex.error = Some(msg);
    };
    // initial stop of the main thread
    let (_, st) = wait_tid(pid);
    if !(libc::WIFSTOPPED(st) && libc::WSTOPSIG(st) == libc::SIGSTOP) {
        fail(&mut ex, format!("unexpected initial status {st:#x}"));
        unsafe { libc::kill(pid, libc::SIGKILL) };
        return ex;
    }
    unsafe {
        pt(libc::PTRACE_SETOPTIONS, pid, 0, (libc::PTRACE_O_TRACECLONE | libc::PTRACE_O_EXITKILL) as usize);
        pt(libc::PTRACE_CONT, pid, 0, 0);
    }
    // phase 1: free run until every worker is stopped at its ready marker
    let mut tids: Vec<i32> = vec![0; n];
    let mut ready = 0usize;
    let deadline = std::time::Instant::now() + std::time::Duration::from_secs(20);
    while ready < n {
        let mut st = 0i32;
        let r = unsafe { libc::waitpid(-1, &mut st, libc::__WALL) };
        if r < 0 {
            fail(&mut ex, "waitpid failed in phase 1".into());
            break;
        }
        if std::time::Instant::now() > deadline {
            fail(&mut ex, "phase 1 timeout".into());
            break;
        }
        if libc::WIFEXITED(st) || libc::WIFSIGNALED(st) {
            fail(&mut ex, format!("subject thread {r} ended during set-up (status {st:#x})"));
            break;
        }
        if !libc::WIFSTOPPED(st) {
            continue;
        }
        let sig = libc::WSTOPSIG(st);
        let event = (st >> 16) & 0xff;
        if sig == libc::SIGTRAP && event == libc::PTRACE_EVENT_CLONE {
            unsafe { pt(libc::PTRACE_CONT, r, 0, 0) };
        } else if sig == libc::SIGSTOP {
            // a new thread's first stop: program its debug registers
            if !set_watch(r, addr, cfg.width) {
                fail(&mut ex, "cannot program debug registers (PTRACE_POKEUSER)".into());
                break;
            }
            unsafe { pt(libc::PTRACE_CONT, r, 0, 0) };
        } else if sig > libc::SIGRTMIN() && sig <= libc::SIGRTMIN() + 8 {
            let t = (sig - libc::SIGRTMIN() - 1) as usize;
            tids[t] = r;
            ready += 1; // keep it stopped
        } else if sig == libc::SIGTRAP {
            fail(&mut ex, "the shared word was touched during set-up".into());
            break;
        } else {
            unsafe { pt(libc::PTRACE_CONT, r, 0, sig as usize) };
        }
    }
    if ex.error.is_some() {
        unsafe {
            libc::kill(pid, libc::SIGKILL);
            libc::waitpid(pid, std::ptr::null_mut(), libc::__WALL);
            libc::close(fds[0]);
        }
        return ex;
    }
    // phase 2: one thread at a time, single-stepped; decision points = accesses to the word
    let mut exited = vec![false; n];
    let mut done_marker = vec![false; n];
    let mut pos = 0usize;
    let run_to_exit = |t: usize, tid: i32, exited: &mut Vec<bool>, ex: &mut Exec| {
        unsafe { pt(libc::PTRACE_CONT, tid, 0, 0) };
        loop {
            let (r, st) = wait_tid(tid);
            if r < 0 || libc::WIFEXITED(st) || libc::WIFSIGNALED(st) {
                break;
            }
            if libc::WIFSTOPPED(st) {
                let sig = libc::WSTOPSIG(st);
                if sig == libc::SIGTRAP && ((st >> 16) & 0xff) == 0 {
                    ex.error = Some(format!("thread {t} touched the word after its execution had returned"));
                    unsafe { pt(libc::PTRACE_CONT, tid, 0, 0) };
                } else {
                    let pass = if sig == libc::SIGUSR2 || sig == libc::SIGTRAP { 0 } else { sig };
                    unsafe { pt(libc::PTRACE_CONT, tid, 0, pass as usize) };
                }
            }
        }
        exited[t] = true;
    };
    loop {
        // choose the next thread: the prefix decides, then the lowest-numbered unfinished thread
        let unfinished: Vec<usize> = (0..n).filter(|t| !exited[*t]).collect();
        if unfinished.is_empty() {
            break;
        }
        let forced = pos < prefix.len();
        let t = if forced { prefix[pos] } else { unfinished[0] };
        if t >= n || exited[t] {
            // cannot happen for prefixes built from recorded decision points of a deterministic subject
            fail(&mut ex, format!("schedule prefix {prefix:?} asks thread {t} to run at access {pos}, but it has finished (replay diverged)"));
            break;
        }
        if pos >= MAX_EVENTS {
            fail(&mut ex, format!("more than {MAX_EVENTS} accesses to the word in one execution (no progress?)"));
            break;
        }
        let tid = tids[t];
        // step until the next access event (or the done marker)
        let mut prev_rip = unsafe { pt(libc::PTRACE_PEEKUSER, tid, rip_offset(), 0) } as u64;
        let mut got_event = false;
        let mut guard = 0u64;
        while !got_event {
            guard += 1;
            ex.steps += 1;
            if guard > 3_000_000 {
                fail(&mut ex, format!("thread {t}: no access and no end after 3000000 steps"));
                break;
            }
            unsafe { pt(libc::PTRACE_SINGLESTEP, tid, 0, 0) };
            let (r, st) = wait_tid(tid);
            if r < 0 || libc::WIFEXITED(st) || libc::WIFSIGNALED(st) {
                exited[t] = true;
                if libc::WIFSIGNALED(st) {
                    fail(&mut ex, format!("thread {t} died with signal {}", libc::WTERMSIG(st)));
                }
                break;
            }
            let sig = libc::WSTOPSIG(st);
            if sig == libc::SIGUSR2 {
                done_marker[t] = true;
                break;
            }
            if sig != libc::SIGTRAP {
                // some other signal: deliver it with the next step
                unsafe { pt(libc::PTRACE_CONT, tid, 0, sig as usize) };
                let (_, st2) = wait_tid(tid);
                if libc::WIFEXITED(st2) || libc::WIFSIGNALED(st2) {
                    exited[t] = true;
                    fail(&mut ex, format!("thread {t} ended on signal {sig}"));
                    break;
                }
                continue;
            }
            let dr6 = unsafe { pt(libc::PTRACE_PEEKUSER, tid, dr_offset(6), 0) } as u64;
            if dr6 & 1 != 0 {
                unsafe { pt(libc::PTRACE_POKEUSER, tid, dr_offset(6), 0) };
                // the instruction that just retired started at prev_rip
                let mut code = [0u8; 16];
                for w in 0..2 {
                    let x = unsafe { pt(libc::PTRACE_PEEKTEXT, tid, (prev_rip + 8 * w) as usize, 0) } as u64;
                    code[(8 * w) as usize..(8 * w + 8) as usize].copy_from_slice(&x.to_le_bytes());
                }
                let before = ex.events.last().map_or(cfg.init & if cfg.width == 4 { 0xffff_ffff } else { u64::MAX }, |e| e.after);
                let after = read_word(&shared, cfg.width);
                match classify(&code, true) {
                    Some((class, locked)) => ex.events.push(Event { thread: t, class, locked, before, after }),
                    None => {
                        fail(&mut ex, format!("thread {t}: undecodable instruction touching the word: {}", hex(&code)));
                        ex.events.push(Event { thread: t, class: "unknown", locked: false, before, after });
                    }
                }
                ex.per_thread[t] += 1;
                got_event = true;
            }
            prev_rip = unsafe { pt(libc::PTRACE_PEEKUSER, tid, rip_offset(), 0) } as u64;
        }
        if ex.error.is_some() {
            break;
        }
        if got_event {
            ex.points.push((t, unfinished.iter().copied().filter(|x| *x != t).collect()));
            pos += 1;
        } else {
            // the thread reached its done marker (or exited) without touching the word again
            if done_marker[t] && !exited[t] {
                run_to_exit(t, tid, &mut exited, &mut ex);
            }
            exited[t] = true;
            if forced {
                ex.redundant = true;
                break;
            }
        }
    }
    if ex.error.is_some() || ex.redundant {
        unsafe {
            libc::kill(pid, libc::SIGKILL);
        }
    } else {
        for t in 0..n {
            if !exited[t] {
                run_to_exit(t, tids[t], &mut exited, &mut ex);
            }
        }
    }
    // main thread: joins, reports, exits
    let mut rep = [0u8; 8];
    let nr = unsafe { libc::read(fds[0], rep.as_mut_ptr() as *mut libc::c_void, 8) };
    unsafe { libc::close(fds[0]) };
    loop {
        let mut st = 0;
        let r = unsafe { libc::waitpid(-1, &mut st, libc::__WALL) };
        if r < 0 {
            break;
        }
        if libc::WIFSTOPPED(st) {
            let sig = libc::WSTOPSIG(st);
            unsafe { pt(libc::PTRACE_CONT, r, 0, if sig == libc::SIGTRAP { 0 } else { sig as usize }) };
        }
    }
    if nr as usize == n {
        ex.thread_ok = rep[..n].to_vec();
    } else if ex.error.is_none() && !ex.redundant {
        ex.error = Some("subject did not report".into());
    }
    ex.final_word = read_word(&shared, cfg.width);
    let b = shared.bytes();
    let wend = WORD_OFF + cfg.width as usize;
    ex.neighbours_ok = b[..WORD_OFF].iter().all(|x| *x == 0xa5) && b[wend..].iter().all(|x| *x == 0xa5) && shared.canary_ok();
    ex
}

fn mask(w: u8) -> u64 {
    if w == 4 {
        0xffff_ffff
    } else {
        u64::MAX
    }
}

fn cfg_json(c: &Cfg) -> Value {
    json!({"kind":"sched","subs":c.subs.iter().map(|s| s.name()).collect::<Vec<_>>(),"k":c.k,"width":c.width,"init":format!("{:#x}", c.init),"addends":c.addends.iter().map(|a| format!("{a:#x}")).collect::<Vec<_>>(),"preg":c.preg,"range_mode":c.range_mode,"shape":c.shape,"off":c.off})
}

fn cfg_from_json(v: &Value) -> Cfg {
    let px = |x: &Value| u64::from_str_radix(x.as_str().unwrap().trim_start_matches("0x"), 16).unwrap();
    Cfg {
        subs: v["subs"].as_array().unwrap().iter().map(|s| match s.as_str().unwrap() { "interp" => Sub::Interp, "jit" => Sub::Jit, "cranelift" => Sub::Cl, _ => Sub::Bad }).collect(),
        k: v["k"].as_u64().unwrap() as usize,
        width: v["width"].as_u64().unwrap() as u8,
        init: px(&v["init"]),
        addends: v["addends"].as_array().unwrap().iter().map(px).collect(),
        preg: v["preg"].as_u64().unwrap() as u8,
        range_mode: v["range_mode"].as_u64().unwrap() as u8,
        shape: v["shape"].as_u64().unwrap_or(0) as u8,
        off: v["off"].as_i64().unwrap_or(0) as i16,
    }
}

/// Explore every schedule of one configuration: stateless depth-first search, a fresh subject
/// process per execution, prefix replay followed by the canonical choice; every alternative at every
/// decision point beyond the prefix is pushed. Returns (complete schedules, lost-update found).
pub fn explore(s: &mut Sink, cfg: &Cfg, report: bool) -> (usize, bool) {
    let class = format!("{}x{}", cfg.subs.iter().map(|x| x.name()).collect::<Vec<_>>().join("+"), cfg.k);
    let rp = cfg_json(cfg);
    let expect = cfg.addends.iter().fold(cfg.init, |a, x| a.wrapping_add(x.wrapping_mul(cfg.k as u64))) & mask(cfg.width);
    let mut lost = false;
    let mut first_trace: Option<Vec<Event>> = None;
    let mut first_counts: Vec<usize> = vec![];
    let mut complete = 0usize;
    let mut todo: Vec<Vec<usize>> = vec![vec![]];
    let mut executions = 0usize;
    while let Some(prefix) = todo.pop() {
        executions += 1;
        if executions > 200_000 || s.expired() {
            // a subject whose adds retry (compare-exchange loops) has far more schedules: the part
            // explored so far decides, the evidence says that this configuration was cut
            s.cut(&format!("schedules of {class} (cut after {executions} executions)"));
            break;
        }
        let ex = execute(cfg, &prefix);
        s.count("single_steps", ex.steps);
        if let Some(e) = &ex.error {
            if e.contains("no progress") {
                let mut rps = rp.clone();
                rps["schedule"] = json!(prefix);
                s.violation(&format!("{class}/no-progress"), format!("schedule prefix {prefix:?}: {e}"), rps);
            } else {
                s.violation(&format!("harness/sched/{class}"), format!("schedule prefix {prefix:?}: {e}"), json!({"kind":"none"}));
            }
            continue;
        }
        if ex.redundant {
            s.count("redundant_prefixes", 1);
            continue;
        }
        let sc: Vec<usize> = ex.points.iter().map(|p| p.0).collect();
        for i in prefix.len()..ex.points.len() {
            for alt in &ex.points[i].1 {
                let mut np = sc[..i].to_vec();
                np.push(*alt);
                todo.push(np);
            }
        }
        complete += 1;
        s.count("evaluations", 1);
        s.count("states", sc.len() as u64 + 1);
        s.count("transitions", sc.len() as u64);
        s.count("traces_validated_against_impl", 1);
        let switches = sc.windows(2).filter(|w| w[0] != w[1]).count();
        if switches > 0 {
            s.count("distinct_nontrivial", 1);
        }
        let mut rps = rp.clone();
        rps["schedule"] = json!(sc);
        if complete == 1 {
            // ownership of nondeterminism: the same schedule again must give the same trace
            let ex2 = execute(cfg, &sc);
            if ex2.events != ex.events || ex2.final_word != ex.final_word || ex2.redundant {
                s.violation("harness/sched/replay-diverged", format!("{class}: replaying schedule {sc:?} gave a different trace"), json!({"kind":"none"}));
            }
            first_trace = Some(ex.events.clone());
            first_counts = ex.per_thread.clone();
        }
        if !report {
            if ex.final_word != expect {
                lost = true;
            }
            continue;
        }
        if ex.thread_ok.iter().any(|x| *x != 1) {
            s.violation(&format!("{class}/execution-failed"), format!("schedule {sc:?}: an execution returned an error ({:?})", ex.thread_ok), rps.clone());
        }
        if ex.final_word != expect {
            lost = true;
            s.violation(&format!("{class}/lost-update"), format!("schedule {sc:?}: final value {:#x}, expected {:#x} = init + sum of addends; events {:?}", ex.final_word, expect, ex.events.iter().map(|e| (e.thread, e.class, e.locked)).collect::<Vec<_>>()), rps.clone());
        }
        if !ex.neighbours_ok {
            s.violation(&format!("{class}/touched-other-bytes"), format!("schedule {sc:?}: bytes next to the word changed"), rps.clone());
        }
        for e in &ex.events {
            let who = cfg.subs[e.thread].name();
            let sum = e.before.wrapping_add(cfg.addends[e.thread]) & mask(cfg.width);
            if (e.class == "rmw" || e.class == "cas") && !e.locked {
                s.violation(&format!("{who}/unlocked-read-modify-write"), format!("the add on the shared word is a read-modify-write instruction without a lock prefix (pointer register r{}, width {})", cfg.preg, cfg.width), rps.clone());
            }
            if e.class == "rmw" && e.after != sum {
                s.violation(&format!("{who}/wrong-sum"), format!("an add changed the word from {:#x} to {:#x}, addend {:#x}", e.before, e.after, cfg.addends[e.thread]), rps.clone());
            }
            // a compare-exchange either fails (word unchanged) or installs old + addend
            if e.class == "cas" && e.after != sum && e.after != e.before {
                s.violation(&format!("{who}/wrong-sum"), format!("a compare-exchange changed the word from {:#x} to {:#x}, addend {:#x}", e.before, e.after, cfg.addends[e.thread]), rps.clone());
            }
            if e.class == "load" && e.after != e.before {
                s.violation(&format!("harness/sched/{class}"), format!("a load changed the word ({:#x} -> {:#x})", e.before, e.after), json!({"kind":"none"}));
            }
        }
    }
    if report {
        s.sample(&class, || json!({"config": rp, "accesses_per_thread_in_first_schedule": first_counts, "schedules": complete, "executions": executions, "trace_of_first_schedule": first_trace.as_ref().map(|t| t.iter().map(|e| format!("T{} {}{} {:#x}->{:#x}", e.thread, if e.locked {"lock "} else {""}, e.class, e.before, e.after)).collect::<Vec<_>>())}));
    }
    (complete, lost)
}

/// Sequential part: width x alignment x addend x engine (no scheduler).
fn sequential(s: &mut Sink) {
    for eng in [Eng::Interp, Eng::Jit, Eng::Cl] {
        for width in [4u8, 8] {
            for align in 0..8usize {
                for preg in [1u8, 6, 7] {
                  // `ps`: the packet handed to the VM starts `ps` bytes into the buffer, so the region's start
                  // is not aligned while the word's address is what `align` says (interpreter: alignment is a
                  // property of the address, not of the offset inside the region)
                  for ps in (if eng == Eng::Interp && preg == 6 { vec![0usize, 1, 2, 4, 5] } else { vec![0usize] }) {
                    for a in V64 {
                        if ps != 0 && !matches!(a, 1 | 0xffff_ffff | 0x0123456789abcdef) {
                            continue;
                        }
                        let buf = Buf::new(64, 0);
                        let mut initb = vec![0x5au8; 64];
                        let woff = 24 + align;
                        let initv: u64 = 0x0102_0304_0506_0708;
                        initb[woff..woff + width as usize].copy_from_slice(&initv.to_le_bytes()[..width as usize]);
                        buf.fill(&initb);
                        let aligned = align % width as usize == 0;
                        if !aligned && eng != Eng::Interp {
                            continue; // misaligned atomics under the compilers: the property is silent
                        }
                        let vreg = if preg == 2 { 3 } else { 2 };
                        let mut prog = vec![isa::mov64r(preg, 1), isa::add64i(preg, (woff - ps) as i32)];
                        prog.extend(isa::lddw(vreg, a));
                        prog.push(I::new(if width == 4 { 0xc3 } else { 0xdb }, preg, vreg, 0, 0));
                        prog.push(isa::mov64i(0, 0));
                        prog.push(isa::EXIT);
                        let bytes = isa::enc(&prog);
                        let rp = json!({"kind":"xadd-seq","eng":eng.name(),"width":width,"align":align,"preg":preg,"addend":format!("{a:#x}"),"packet_start":ps});
                        let class = format!("xadd{}@align{}", if width == 4 { "w" } else { "dw" }, align % width as usize);
                        s.count("evaluations", 1);
                        s.count("states", 1);
                        s.count("transitions", 1);
                        s.count("traces_validated_against_impl", 1);
                        s.count("distinct_nontrivial", 1);
                        let mut vmx = match AnyVm::new(VmKind::Raw, Some(&bytes)) {
                            Ok(v) => v,
                            Err(e) => {
                                s.violation(&format!("verifier/{class}/rejects-template"), e, rp);
                                continue;
                            }
                        };
                        if let Ok(Err(e)) | Err(e) = catch(|| vmx.compile(eng)) {
                            s.violation(&format!("{}/{class}/compile-err", eng.name()), e, rp);
                            continue;
                        }
                        let out = {
                            // isolate every run: compiled code can fault, and an interpreter that
                            // wrongly admits a misaligned atomic aborts in builds with debug assertions
                            let end = in_child(20, || match vmx.exec(eng, (unsafe { buf.ptr.add(ps) }, 64 - ps), crate::vm::empty_raw()) {
                                Ok(v) => format!("O{v}").into_bytes(),
                                Err(e) => format!("E{e}").into_bytes(),
                            });
                            match end {
                                ChildEnd::Ok(b) if b.first() == Some(&b'O') => crate::vm::Out::Ok(0),
                                ChildEnd::Ok(b) => crate::vm::Out::Err(String::from_utf8_lossy(&b).to_string()),
                                ChildEnd::Signal(sig) => crate::vm::Out::Panic(format!("died with {}", signame(sig))),
                                ChildEnd::Exit(c) => crate::vm::Out::Panic(format!("child exit {c}")),
                            }
                        };
                        let after = buf.bytes().to_vec();
                        let mut want = initb.clone();
                        if aligned {
                            let sum = if width == 4 { (initv as u32).wrapping_add(a as u32) as u64 } else { initv.wrapping_add(a) };
                            want[woff..woff + width as usize].copy_from_slice(&sum.to_le_bytes()[..width as usize]);
                            match out {
                                crate::vm::Out::Ok(_) => {}
                                crate::vm::Out::Err(e) | crate::vm::Out::Panic(e) => {
                                    s.violation(&format!("{}/{class}/failed", eng.name()), format!("aligned atomic add failed: {e}"), rp.clone());
                                    continue;
                                }
                            }
                            if after != want {
                                s.violation(&format!("{}/{class}/wrong-memory-effect", eng.name()), format!("after adding {a:#x}: word bytes {} expected {}", hex(&after[woff..woff + 8]), hex(&want[woff..woff + 8])), rp.clone());
                            }
                        } else {
                            match out {
                                crate::vm::Out::Err(_) => {}
                                crate::vm::Out::Ok(_) => s.violation(&format!("{}/{class}/misaligned-add-accepted", eng.name()), "a misaligned atomic add returned Ok".into(), rp.clone()),
                                crate::vm::Out::Panic(m) => s.violation(&format!("{}/{class}/{}", eng.name(), panic_class(&m)), m, rp.clone()),
                            }
                            if after != initb {
                                s.violation(&format!("{}/{class}/misaligned-add-changed-memory", eng.name()), "memory changed although the add was refused".into(), rp.clone());
                            }
                        }
                        if !buf.canary_ok() {
                            s.violation(&format!("{}/{class}/touched-other-bytes", eng.name()), "bytes outside the buffer changed".into(), rp.clone());
                        }
                    }
                  }
                }
            }
        }
    }
    // the same on the interpreter for words on the eBPF stack and in registered allowed memory
    for width in [4u8, 8] {
        for preg in [1u8, 6, 9] {
            for a in [1u64, 0xffff_ffff, 0x8000_0000_0000_0001] {
                let vreg = if preg == 2 { 3 } else { 2 };
                let opc = if width == 4 { 0xc3 } else { 0xdb };
                // stack: the buffer's own alignment is not specified, so count: of the 8 addresses
                // [r10-24+k], k = 0..8, exactly 8/width are naturally aligned
                let mut oks = 0;
                let mut outcomes = vec![];
                for k in 0..8i32 {
                    let mut prog = isa::lddw(3, 0x0102_0304_0506_0708).to_vec();
                    prog.push(isa::stxdw(10, -24, 3));
                    prog.push(isa::stxdw(10, -16, 3));
                    prog.push(isa::stxdw(10, -8, 3));
                    prog.push(isa::mov64r(preg, 10));
                    prog.push(isa::add64i(preg, -24 + k));
                    prog.extend(isa::lddw(vreg, a));
                    prog.push(I::new(opc, preg, vreg, 0, 0));
                    prog.push(isa::mov64i(0, 0));
                    prog.push(isa::EXIT);
                    let bytes = isa::enc(&prog);
                    s.count("evaluations", 1);
                    s.count("states", 1);
                    s.count("transitions", 1);
                    s.count("traces_validated_against_impl", 1);
                    s.count("distinct_nontrivial", 1);
                    let end = in_child(20, || {
                        let mut vmx = match AnyVm::new(VmKind::NoData, Some(&bytes)) { Ok(v) => v, Err(e) => return format!("L{e}").into_bytes() };
                        match vmx.exec(Eng::Interp, crate::vm::empty_raw(), crate::vm::empty_raw()) {
                            Ok(_) => b"O".to_vec(),
                            Err(e) => format!("E{e}").into_bytes(),
                        }
                    });
                    let o = match end {
                        ChildEnd::Ok(b) => String::from_utf8_lossy(&b[..1.min(b.len())]).to_string(),
                        ChildEnd::Signal(sig) => format!("S{}", signame(sig)),
                        ChildEnd::Exit(c) => format!("X{c}"),
                    };
                    if o == "O" {
                        oks += 1;
                    }
                    outcomes.push(o);
                }
                let want = 8 / width as usize;
                let rp = json!({"kind":"xadd-seq","region":"stack","width":width,"preg":preg,"addend":format!("{a:#x}")});
                if outcomes.iter().any(|o| o != "O" && o != "E") {
                    s.violation(&format!("interp/xadd{}@stack/failed", if width == 4 { "w" } else { "dw" }), format!("outcomes for [r10-24+k], k=0..8: {outcomes:?} (O = Ok, E = Err)"), rp);
                } else if oks != want {
                    s.violation(&format!("interp/xadd{}@stack/misaligned-add-accepted", if width == 4 { "w" } else { "dw" }), format!("{oks} of the 8 consecutive addresses [r10-24+k] were accepted; exactly {want} are naturally aligned (outcomes {outcomes:?})"), rp);
                }
                // registered allowed memory
                for align in 0..8usize {
                    let buf = Buf::new(64, 0);
                    let mut initb = vec![0x5au8; 64];
                    let woff = 24 + align;
                    let initv: u64 = 0x0102_0304_0506_0708;
                    initb[woff..woff + width as usize].copy_from_slice(&initv.to_le_bytes()[..width as usize]);
                    buf.fill(&initb);
                    let aligned = align % width as usize == 0;
                    let mut prog = isa::lddw(preg, buf.addr() + woff as u64).to_vec();
                    prog.extend(isa::lddw(vreg, a));
                    prog.push(I::new(opc, preg, vreg, 0, 0));
                    prog.push(isa::mov64i(0, 0));
                    prog.push(isa::EXIT);
                    let bytes = isa::enc(&prog);
                    let class = format!("xadd{}@allowed-align{}", if width == 4 { "w" } else { "dw" }, align % width as usize);
                    let rp = json!({"kind":"xadd-seq","region":"allowed","width":width,"align":align,"preg":preg,"addend":format!("{a:#x}")});
                    s.count("evaluations", 1);
                    s.count("states", 1);
                    s.count("transitions", 1);
                    s.count("traces_validated_against_impl", 1);
                    s.count("distinct_nontrivial", 1);
                    // the registered range starts 0, 1 or 5 bytes into the buffer (preg selects): an odd start
                    let rs = match preg { 1 => 0u64, 6 => 1, _ => 5 };
                    let (st, en) = (buf.addr() + rs, buf.addr() + 64);
                    let end = in_child(20, || {
                        let mut vmx = match AnyVm::new(VmKind::NoData, Some(&bytes)) { Ok(v) => v, Err(e) => return format!("L{e}").into_bytes() };
                        vmx.register_allowed_memory(st..en);
                        match vmx.exec(Eng::Interp, crate::vm::empty_raw(), crate::vm::empty_raw()) {
                            Ok(_) => b"O".to_vec(),
                            Err(e) => format!("E{e}").into_bytes(),
                        }
                    });
                    let after = buf.bytes().to_vec();
                    let o = match end {
                        ChildEnd::Ok(b) => String::from_utf8_lossy(&b[..1.min(b.len())]).to_string(),
                        ChildEnd::Signal(sig) => format!("S{}", signame(sig)),
                        ChildEnd::Exit(c) => format!("X{c}"),
                    };
                    let mut want = initb.clone();
                    if aligned {
                        let sum = if width == 4 { (initv as u32).wrapping_add(a as u32) as u64 } else { initv.wrapping_add(a) };
                        want[woff..woff + width as usize].copy_from_slice(&sum.to_le_bytes()[..width as usize]);
                        if o != "O" {
                            s.violation(&format!("interp/{class}/failed"), format!("aligned atomic add in registered memory failed ({o})"), rp.clone());
                        } else if after != want {
                            s.violation(&format!("interp/{class}/wrong-memory-effect"), format!("after adding {a:#x}: word bytes {} expected {}", hex(&after[woff..woff + 8]), hex(&want[woff..woff + 8])), rp.clone());
                        }
                    } else {
                        if o != "E" {
                            s.violation(&format!("interp/{class}/misaligned-add-accepted"), format!("a misaligned atomic add in registered memory gave {o}"), rp.clone());
                        }
                        if after != initb {
                            s.violation(&format!("interp/{class}/misaligned-add-changed-memory"), "memory changed although the add was refused".into(), rp.clone());
                        }
                    }
                }
            }
        }
    }
    s.done("sequential: width x alignment x addend x pointer register x engine; interpreter also on the stack and in registered memory");
}

fn configs(thorough: bool) -> Vec<Cfg> {
    let mut v = vec![];
    let engines = [Sub::Interp, Sub::Jit, Sub::Cl];
    let shapes: Vec<(usize, usize)> = if thorough { vec![(2, 1), (2, 2), (3, 1), (3, 2), (4, 1)] } else { vec![(2, 1), (2, 2), (3, 1)] };
    for (n, k) in shapes {
        let mixes = engines.len().pow(n as u32);
        for m in 0..mixes {
            let mut subs = vec![];
            let mut x = m;
            for _ in 0..n {
                subs.push(engines[x % 3]);
                x /= 3;
            }
            for width in [4u8, 8] {
                let sets: Vec<(u64, Vec<u64>)> = if thorough {
                    vec![(1, vec![1, 0x10, 0x100, 0x1000]), (0xffff_ffff, vec![1, 0x8000_0000, 0xffff_ffff, 2]), (u64::MAX, vec![u64::MAX, 1, 0x1_0000_0000, 7])]
                } else {
                    vec![(0xffff_ffff, vec![1, 0x8000_0000, 0xffff_ffff, 2])]
                };
                for (init, adds) in sets {
                    // vary pointer register and the placement of the word in the registered range with the mix
                    let preg = [1u8, 6, 7, 8, 9, 3][(m + n + k) % 6];
                    let range_mode = ((m + width as usize) % 3) as u8;
                    if n == 3 && k == 2 && !(width == 8 && init == 0xffff_ffff) {
                        continue;
                    }
                    v.push(Cfg { subs: subs.clone(), k, width, init, addends: adds[..n].to_vec(), preg, range_mode, shape: 0, off: 0 });
                    if n == 2 && init == 0xffff_ffff {
                        // the add reached by a jump / a call, and through a non-zero offset field from
                        // a pointer that is itself not aligned
                        for (shape, off) in [(1u8, 0i16), (2, 0), (3, 0), (0, 2), (0, -4), (1, 14)] {
                            if k == 2 && !(shape == 1 || off == 2) {
                                continue;
                            }
                            v.push(Cfg { subs: subs.clone(), k, width, init, addends: adds[..n].to_vec(), preg, range_mode, shape, off });
                        }
                    }
                }
            }
        }
    }
    // one thread, every pointer register and range placement (is the instruction locked?)
    for sub in engines {
        for preg in 0..=9u8 {
            for width in [4u8, 8] {
                for range_mode in 0..3u8 {
                    if sub != Sub::Interp && range_mode != 0 {
                        continue;
                    }
                    v.push(Cfg { subs: vec![sub], k: 1, width, init: 5, addends: vec![0x11], preg, range_mode, shape: 0, off: 0 });
                    if range_mode == 0 {
                        for (shape, off, k) in [(1u8, 0i16, 2usize), (2, 0, 1), (3, 0, 2), (0, 2, 1), (0, -2, 1), (0, 4, 1), (0, 12, 1), (0, -32768, 1), (1, 6, 2)] {
                            v.push(Cfg { subs: vec![sub], k, width, init: 5, addends: vec![0x11], preg, range_mode, shape, off });
                        }
                    }
                }
            }
        }
    }
    v
}

pub fn run(s: &mut Sink) {
    let thorough = s.tier == Tier::Thorough;
    let cfgs = configs(thorough);
    s.meta.insert("alphabet".into(), json!({
        "threads_x_adds": if thorough {"(2,1) (2,2) (3,1) (3,2) (4,1)"} else {"(2,1) (2,2) (3,1)"},
        "engine_mixes": "all 3^N assignments of {interpreter (word in registered allowed memory), x86-64 JIT, Cranelift (word in its packet)}",
        "widths": [32, 64], "pointer_registers": "varied with the mix; plus every r0..r9 single-threaded", "range_placement": "word = whole range / first word / last word of the registered range",
        "sequential": "width x alignment 0..7 x 31 addends x pointer registers r1,r6,r7 x engine",
    }));
    s.meta.insert("bound".into(), json!("all interleavings of the accesses to the shared word: stateless depth-first search (fresh subject process per execution, prefix replay then canonical choice, every alternative thread at every decision point); decision points = accesses reported by hardware watch-points, discovered while running (the number of accesses of a thread may depend on the schedule); one thread runs at a time, single-stepped between its ready and done markers; at most 64 accesses per execution"));
    s.meta.insert("rule".into(), json!("evaluation = one complete execution of the subject under one schedule; states/transitions = scheduler states (event prefixes) and scheduling decisions; non-trivial = schedules with at least one context switch between two accesses; the first schedule of every configuration is replayed and must give the identical event trace"));
    s.meta.insert("assumptions".into(), json!(["sequentially consistent interleavings at shared-access granularity plus the rule that a read-modify-write on the word must carry a lock prefix; store-buffer effects are not modelled; x86-64 only"]));
    // self-test first (every shard): the explorer must find the lost update of a non-atomic subject
    let st = Cfg { subs: vec![Sub::Bad, Sub::Bad], k: 1, width: 8, init: 1, addends: vec![0x10, 0x100], preg: 1, range_mode: 0, shape: 0, off: 0 };
    let mut scratch = s.child();
    let (n, lost) = explore(&mut scratch, &st, false);
    if !(lost && n == 6) {
        let why = scratch.finish()["violations"].to_string();
        eprintln!("HARNESS PANIC: sched self-test failed: {n} schedules, lost update found: {lost}; {why}");
        std::process::exit(3);
    }
    s.count("selftest_schedules", n as u64);
    let mut g = 0u64;
    if s.take(g) {
        sequential(s);
    }
    g += 1;
    for c in &cfgs {
        let idx = g;
        g += 1;
        if !s.take(idx) {
            continue;
        }
        if s.expired() {
            s.cut("schedules");
            return;
        }
        s.mark(idx, "sched", &cfg_json(c));
        let (n, _) = explore(s, c, true);
        s.count("schedules", n as u64);
    }
    s.done("all schedules of all configurations");
}

pub fn replay(v: &Value) -> Vec<String> {
    if v["kind"] == "xadd-seq" {
        return vec!["sequential xadd records are re-checked by running bin/check C18".into()];
    }
    let cfg = cfg_from_json(v);
    let mut s = Sink::new("replay", Tier::Quick, 0, 1, None, None, 3600);
    explore(&mut s, &cfg, true);
    let r = s.finish();
    let mut out: Vec<String> = r["violations"].as_array().unwrap().iter().map(|x| format!("{}: {}", x["sig"].as_str().unwrap(), x["detail"].as_str().unwrap())).collect();
    out.sort();
    out.dedup();
    out
}
