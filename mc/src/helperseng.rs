//! Engine `helpers` (C19): the built-in helpers against independent functions.

use crate::common::*;
use crate::vm::Buf;
use rbpf::helpers;
use serde_json::{json, Value};
use std::io::Write;

fn viol(s: &mut Sink, sig: &str, detail: String, rp: Value) {
    s.violation(sig, detail, rp);
}

// ---------------------------------------------------------------- gather_bytes
fn ref_gather(a: [u64; 5]) -> u64 {
    (a[0] << 32) | (a[1] << 24) | (a[2] << 16) | (a[3] << 8) | a[4]
}

fn check_gather(s: &mut Sink, a: [u64; 5]) {
    let got = catch(|| helpers::gather_bytes(a[0], a[1], a[2], a[3], a[4]));
    let rp = json!({"kind":"helper","name":"gather_bytes","args":a.iter().map(|x| format!("{x:#x}")).collect::<Vec<_>>()});
    match got {
        Ok(v) if v == ref_gather(a) => {}
        Ok(v) => viol(s, "helpers/gather_bytes/value-mismatch", format!("gather_bytes{a:x?} = {v:#x}, expected {:#x}", ref_gather(a)), rp),
        Err(m) => viol(s, &format!("helpers/gather_bytes/{}", panic_class(&m)), m, rp),
    }
}

// ---------------------------------------------------------------- sqrti
fn isqrt128(n: u128) -> u128 {
    if n < 2 {
        return n;
    }
    let mut x = (n as f64).sqrt() as u128;
    // fix up to the exact floor
    while x * x > n {
        x -= 1;
    }
    while (x + 1) * (x + 1) <= n {
        x += 1;
    }
    x
}

/// u64 -> nearest f64 (ties to even), returned as an exact integer.
fn round_to_f64_int(x: u64) -> u128 {
    let bits = 64 - x.leading_zeros();
    if bits <= 53 {
        return x as u128;
    }
    let sh = bits - 53;
    let low = x & ((1u64 << sh) - 1);
    let half = 1u64 << (sh - 1);
    let mut m = (x >> sh) as u128;
    if low > half || (low == half && (m & 1) == 1) {
        m += 1;
    }
    m << sh
}

/// "round the argument to f64, take the correctly rounded square root, truncate" in integers.
pub fn ref_sqrti(x: u64) -> u64 {
    let y = round_to_f64_int(x);
    let r = isqrt128(y);
    if r * r == y || r == 0 {
        return r as u64;
    }
    // does the correctly rounded sqrt reach r+1?  half ulp just below r+1 is 2^-(s)
    let b = 127 - r.leading_zeros() as i32; // floor(log2 r)
    let s = 53 - b; // half ulp = 2^(b-53) = 2^-s
    if s <= 0 || s > 40 {
        return r as u64; // s > 40 only for y < 2^26: far from any rounding effect (exact)
    }
    let s = s as u32;
    let lhs = y << (2 * s);
    let t = ((r + 1) << s) - 1;
    if lhs >= t * t {
        (r + 1) as u64
    } else {
        r as u64
    }
}

fn check_sqrti(s: &mut Sink, x: u64) {
    // the four unused arguments vary with the argument (zero for even x)
    let u = if x % 2 == 0 { 0 } else { x.rotate_left(7) | 1 };
    let got = catch(|| helpers::sqrti(x, u, u ^ 5, !u, u.wrapping_mul(3)));
    let rp = json!({"kind":"helper","name":"sqrti","args":[format!("{x:#x}")]});
    let want = if x < (1u64 << 52) { isqrt128(x as u128) as u64 } else { ref_sqrti(x) };
    match got {
        Ok(v) if v == want => {}
        Ok(v) => viol(s, if x < (1u64 << 52) { "helpers/sqrti/not-exact-below-2^52" } else { "helpers/sqrti/value-mismatch" }, format!("sqrti({x}) = {v}, expected {want}"), rp),
        Err(m) => viol(s, &format!("helpers/sqrti/{}", panic_class(&m)), format!("sqrti({x}) panicked: {m}"), rp),
    }
}

// ---------------------------------------------------------------- memfrob
fn check_memfrob(s: &mut Sink, len: usize, align: usize, fill: u8) {
    let b = Buf::new(len, align);
    let data: Vec<u8> = (0..len).map(|k| (k as u8).wrapping_mul(31).wrapping_add(fill)).collect();
    b.fill(&data);
    let rp = json!({"kind":"helper","name":"memfrob","args":[len, align, fill]});
    let r = catch(|| helpers::memfrob(b.addr(), len as u64, 0x1111, 0x2222, 0x3333));
    if let Err(m) = r {
        viol(s, &format!("helpers/memfrob/{}", panic_class(&m)), m, rp);
        return;
    }
    let want: Vec<u8> = data.iter().map(|x| x ^ 0x2a).collect();
    if b.bytes() != &want[..] {
        viol(s, "helpers/memfrob/bytes-mismatch", format!("memfrob(len {len}, alignment {align}) did not XOR exactly the addressed bytes with 0x2a"), rp.clone());
    }
    if !b.canary_ok() {
        viol(s, "helpers/memfrob/touched-other-bytes", format!("memfrob(len {len}, alignment {align}) changed bytes outside the buffer"), rp.clone());
    }
    let _ = catch(|| helpers::memfrob(b.addr(), len as u64, 0, 0, 0));
    if b.bytes() != &data[..] {
        viol(s, "helpers/memfrob/not-involutive", format!("applying memfrob twice (len {len}) did not restore the bytes"), rp);
    }
}

// ---------------------------------------------------------------- strcmp
fn ref_strcmp(a: &[u8], b: &[u8]) -> u64 {
    // a, b are NUL-terminated
    let mut i = 0;
    loop {
        let (x, y) = (a[i], b[i]);
        if x != y {
            return (x as i64 - y as i64).unsigned_abs();
        }
        if x == 0 {
            return 0;
        }
        i += 1;
    }
}

fn all_strings(maxlen: usize) -> Vec<Vec<u8>> {
    let alpha = [0x01u8, 0x7f, 0x80, 0xff];
    let mut v: Vec<Vec<u8>> = vec![vec![]];
    let mut frontier: Vec<Vec<u8>> = vec![vec![]];
    for _ in 0..maxlen {
        let mut next = vec![];
        for f in &frontier {
            for c in alpha {
                let mut x = f.clone();
                x.push(c);
                next.push(x);
            }
        }
        v.extend(next.iter().cloned());
        frontier = next;
    }
    v
}

fn check_strcmp(s: &mut Sink, a: &[u8], b: &[u8]) {
    // place each string at the very end of a guard-page buffer: reading past the NUL faults
    let mut az = a.to_vec();
    az.push(0);
    let mut bz = b.to_vec();
    bz.push(0);
    let ba = Buf::new(az.len(), 0);
    let bb = Buf::new(bz.len(), 0);
    ba.fill(&az);
    bb.fill(&bz);
    // Buf leaves 64 canary bytes after the buffer; they are non-zero (0xC5), so an over-read is
    // visible as a wrong result rather than a fault
    let rp = json!({"kind":"helper","name":"strcmp","args":[hex(a), hex(b)]});
    let want = ref_strcmp(&az, &bz);
    // the three arguments the function does not use: zero and a few non-zero triples
    for (x, y, z) in [(0u64, 0u64, 0u64), (1, 2, 3), (6, 0, 0), (u64::MAX, u64::MAX, u64::MAX)] {
        let got = catch(|| helpers::strcmp(ba.addr(), bb.addr(), x, y, z));
        match got {
            Ok(v) if v == want => {}
            Ok(v) => {
                viol(s, "helpers/strcmp/value-mismatch", format!("strcmp({:02x?}, {:02x?}, {x:#x}, {y:#x}, {z:#x}) = {v}, expected {want}", a, b), rp.clone());
                break;
            }
            Err(m) => {
                viol(s, &format!("helpers/strcmp/{}", panic_class(&m)), m, rp.clone());
                break;
            }
        }
    }
}

const SEP: &[u8] = b"\x00\x01<verif-sep>\x02\n";

/// Two strings with a common prefix of `l` non-zero bytes followed by the tails.
fn check_strcmp_long(s: &mut Sink, l: usize, ta: &[u8], tb: &[u8]) {
    let prefix: Vec<u8> = (0..l).map(|i| (i % 251) as u8 + 1).collect();
    let mut az = prefix.clone();
    az.extend_from_slice(ta);
    az.push(0);
    let mut bz = prefix;
    bz.extend_from_slice(tb);
    bz.push(0);
    let ba = Buf::new(az.len(), 0);
    let bb = Buf::new(bz.len(), 0);
    ba.fill(&az);
    bb.fill(&bz);
    let rp = json!({"kind":"helper","name":"strcmp-long","args":[l, hex(ta), hex(tb)]});
    let got = catch(|| helpers::strcmp(ba.addr(), bb.addr(), 0, 0, 0));
    let want = ref_strcmp(&az, &bz);
    match got {
        Ok(v) if v == want => {}
        Ok(v) => viol(s, "helpers/strcmp/value-mismatch", format!("strcmp of two strings with a common prefix of {l} bytes followed by {:02x?} / {:02x?} = {v}, expected {want}", ta, tb), rp),
        Err(m) => viol(s, &format!("helpers/strcmp/{}", panic_class(&m)), m, rp),
    }
}

// ---------------------------------------------------------------- bpf_trace_printf (stdout captured in a child)
fn printf_values() -> Vec<u64> {
    let mut v = vec![0u64, 1, 2, 9, 10, 15];
    for k in 0..16u32 {
        let p = 1u64 << (4 * k);
        v.extend([p, p.wrapping_sub(1), p + 1]);
    }
    for n in 0..64u32 {
        let p = 1u64 << n;
        v.extend([p.wrapping_sub(1), p | 1]);
    }
    v.push(u64::MAX);
    v.push(u64::MAX - 1);
    v.sort();
    v.dedup();
    v
}

fn check_printf_batch(s: &mut Sink, cases: &[[u64; 3]]) {
    // child: stdout -> pipe A; return values -> pipe B
    let cases_v = cases.to_vec();
    unsafe {
        let mut pa = [0i32; 2];
        let mut pb = [0i32; 2];
        assert_eq!(libc::pipe(pa.as_mut_ptr()), 0);
        assert_eq!(libc::pipe(pb.as_mut_ptr()), 0);
        // make the pipes large enough for a batch
        libc::fcntl(pa[1], libc::F_SETPIPE_SZ, 1 << 20);
        libc::fcntl(pb[1], libc::F_SETPIPE_SZ, 1 << 20);
        let pid = libc::fork();
        assert!(pid >= 0);
        if pid == 0 {
            libc::close(pa[0]);
            libc::close(pb[0]);
            libc::dup2(pa[1], 1);
            // "the number of bytes it prints": the property does not name the stream - standard error
            // is captured as well (and the child's own panic messages are silenced)
            libc::dup2(pa[1], 2);
            std::panic::set_hook(Box::new(|_| {}));
            let mut rets: Vec<u8> = vec![];
            for c in &cases_v {
                let r = std::panic::catch_unwind(|| helpers::bpf_trace_printf(0x11, 0x22, c[0], c[1], c[2]));
                let v = r.unwrap_or(u64::MAX);
                rets.extend_from_slice(&v.to_le_bytes());
                // a separator written by the harness itself, so that what each call printed is
                // known whatever it contains (or lacks, e.g. the final newline)
                let _ = std::io::stdout().flush();
                libc::write(1, SEP.as_ptr() as *const libc::c_void, SEP.len());
            }
            let _ = std::io::stdout().flush();
            libc::write(pb[1], rets.as_ptr() as *const libc::c_void, rets.len());
            libc::_exit(0);
        }
        libc::close(pa[1]);
        libc::close(pb[1]);
        let read_all = |fd: i32| -> Vec<u8> {
            let mut out = vec![];
            let mut tmp = [0u8; 65536];
            loop {
                let n = libc::read(fd, tmp.as_mut_ptr() as *mut libc::c_void, tmp.len());
                if n > 0 {
                    out.extend_from_slice(&tmp[..n as usize]);
                } else if n == 0 || *libc::__errno_location() != libc::EINTR {
                    break;
                }
            }
            out
        };
        let so = read_all(pa[0]);
        let rets = read_all(pb[0]);
        libc::close(pa[0]);
        libc::close(pb[0]);
        let mut st = 0;
        libc::waitpid(pid, &mut st, 0);
        let mut lines: Vec<&[u8]> = vec![];
        let mut rest: &[u8] = &so;
        while let Some(pos) = rest.windows(SEP.len()).position(|w| w == SEP) {
            lines.push(&rest[..pos]);
            rest = &rest[pos + SEP.len()..];
        }
        if lines.len() != cases.len() || rets.len() != cases.len() * 8 {
            s.violation("harness/bpf_trace_printf/capture-failed", format!("{} lines, {} return values for {} calls", lines.len(), rets.len() / 8, cases.len()), json!({"kind":"none"}));
            return;
        }
        for (k, c) in cases.iter().enumerate() {
            let ret = u64::from_le_bytes(rets[k * 8..k * 8 + 8].try_into().unwrap());
            let printed = lines[k].len() as u64;
            let rp = json!({"kind":"helper","name":"bpf_trace_printf","args":c.iter().map(|x| format!("{x:#x}")).collect::<Vec<_>>()});
            if ret == u64::MAX {
                s.violation("helpers/bpf_trace_printf/panic", format!("bpf_trace_printf(_, _, {:#x}, {:#x}, {:#x}) panicked", c[0], c[1], c[2]), rp);
            } else if ret != printed {
                s.violation("helpers/bpf_trace_printf/return-differs-from-bytes-printed", format!("bpf_trace_printf(_, _, {:#x}, {:#x}, {:#x}) returned {ret} but printed {printed} bytes ({:?})", c[0], c[1], c[2], String::from_utf8_lossy(lines[k]).trim_end()), rp);
            }
        }
    }
}

// ---------------------------------------------------------------- rand
fn check_rand(s: &mut Sink, min: u64, max: u64) {
    let rp = json!({"kind":"helper","name":"rand","args":[format!("{min:#x}"), format!("{max:#x}")]});
    for _ in 0..64 {
        match catch(|| helpers::rand(min, max, 0, 0, 0)) {
            Ok(v) => {
                if min < max && !(min <= v && v <= max) {
                    viol(s, "helpers/rand/out-of-range", format!("rand({min:#x}, {max:#x}) = {v:#x}"), rp.clone());
                    return;
                }
            }
            Err(m) => {
                viol(s, &format!("helpers/rand/{}", panic_class(&m)), format!("rand({min:#x}, {max:#x}) panicked: {m}"), rp.clone());
                return;
            }
        }
    }
}

pub fn run(s: &mut Sink) {
    let thorough = s.tier == Tier::Thorough;
    let kmax: u64 = if thorough { 1 << 26 } else { 1 << 16 };
    s.meta.insert("alphabet".into(), json!({
        "gather_bytes": "each argument over V64 (31 values) with the others fixed, full product over a 6-value subset",
        "memfrob": "every length 0..=600 and around 1 KiB, 4 KiB and 64 KiB x every start alignment 0..7 x 3 fill patterns, guard pages and canaries around the buffer",
        "strcmp": "all pairs of strings of length <= 3 over {0x01,0x7f,0x80,0xff}, NUL terminated; common prefixes of every length 0..=1100 and around 4096 and 65536 followed by every pair of tails of length <= 1; null pointers",
        "sqrti": format!("k^2, k^2-1, k^2+1 for every k < {kmax}; 2^n, 2^n-1, 2^n+1 for n < 64; 2^52 neighbourhood; u64::MAX neighbourhood"),
        "bpf_trace_printf": "each of the three printed arguments over {16^k, 16^k-1, 16^k+1, 2^n-1, 2^n|1, small values, u64::MAX}, others fixed; full product over an 8-value subset; stdout captured in a child process",
        "rand": "all ordered pairs (min < max, min = max, min > max) from {0,1,2,3, 2^k-1, 2^k, 2^k+1 for k in 7,8,15,16,31,32,33,52,53,63, u64::MAX-1, u64::MAX}, 64 calls each",
    }));
    s.meta.insert("bound".into(), json!("argument alphabets as listed; complete products"));
    s.meta.insert("rule".into(), json!("cases are enumerated products of the argument alphabets; non-trivial = every case (each is a distinct argument tuple compared with an independent function)"));
    let mut g = 0u64;
    // gather_bytes
    if s.take(g) {
        let mut n = 0;
        for pos in 0..5 {
            for v in V64 {
                let mut a = [1u64, 2, 3, 4, 5];
                a[pos] = v;
                check_gather(s, a);
                n += 1;
            }
        }
        let sub = [0u64, 1, 0xff, 0x100, 0xffff_ffff, u64::MAX];
        for a in sub {
            for b in sub {
                for c in sub {
                    for d in sub {
                        for e in sub {
                            check_gather(s, [a, b, c, d, e]);
                            n += 1;
                        }
                    }
                }
            }
        }
        s.count("evaluations", n);
        s.count("distinct_nontrivial", n);
        s.sample("gather_bytes", || json!({"args": ["0xffffffff", "0x100", "0xff", "0x1", "0x0"]}));
        s.done("gather_bytes");
    }
    g += 1;
    // memfrob
    if s.take(g) {
        let mut n = 0;
        let mut lens: Vec<usize> = (0..=600).collect();
        lens.extend([1023, 1024, 1025, 4095, 4096, 4097, 65535, 65536, 65537]);
        for len in lens {
            for align in 0..8 {
                for fill in [0x00u8, 0x2a, 0xd5] {
                    check_memfrob(s, len, align, fill);
                    n += 1;
                }
            }
        }
        s.count("evaluations", n);
        s.count("distinct_nontrivial", n);
        s.sample("memfrob", || json!({"len": 64, "alignment": 7, "fill": "0x2a"}));
        s.done("memfrob");
    }
    g += 1;
    // strcmp
    if s.take(g) {
        let strs = all_strings(3);
        let mut n = 0;
        for a in &strs {
            for b in &strs {
                check_strcmp(s, a, b);
                n += 1;
            }
        }
        // every common-prefix length up to 1100 bytes, and around 4 KiB and 64 KiB
        let tails = all_strings(1);
        let mut lens: Vec<usize> = (0..=1100).collect();
        lens.extend([4095, 4096, 4097, 65535, 65536, 65537, 70000]);
        for l in lens {
            for ta in &tails {
                for tb in &tails {
                    check_strcmp_long(s, l, ta, tb);
                    n += 1;
                }
            }
        }
        // null pointers
        let b = Buf::new(2, 0);
        b.fill(&[0x41, 0]);
        for (x, y) in [(0u64, b.addr()), (b.addr(), 0u64), (0, 0)] {
            match catch(|| helpers::strcmp(x, y, 0, 0, 0)) {
                Ok(v) if v == u64::MAX => {}
                Ok(v) => viol(s, "helpers/strcmp/null-pointer-result", format!("strcmp with a null pointer returned {v:#x}, expected all-ones"), json!({"kind":"helper","name":"strcmp-null","args":[x == 0, y == 0]})),
                Err(m) => viol(s, &format!("helpers/strcmp/{}", panic_class(&m)), m, json!({"kind":"helper","name":"strcmp-null","args":[x == 0, y == 0]})),
            }
            n += 1;
        }
        s.count("evaluations", n);
        s.count("distinct_nontrivial", n);
        s.sample("strcmp", || json!({"a": "80ff", "b": "807f"}));
        s.done("strcmp");
    }
    g += 1;
    // sqrti: chunks of k
    let chunks = 64u64;
    for c in 0..chunks {
        let idx = g;
        g += 1;
        if !s.take(idx) {
            continue;
        }
        if s.expired() {
            s.cut("sqrti");
            break;
        }
        let mut n = 0u64;
        let lo = kmax / chunks * c;
        let hi = kmax / chunks * (c + 1);
        for k in lo..hi {
            // spread k over the whole 32-bit range as well: k itself and k scaled up
            for kk in [k, k * (u32::MAX as u64 / kmax).max(1) + (k & 0xff)] {
                let sq = kk.wrapping_mul(kk);
                if kk > u32::MAX as u64 {
                    continue;
                }
                check_sqrti(s, sq);
                check_sqrti(s, sq.wrapping_sub(1));
                check_sqrti(s, sq.wrapping_add(1));
                n += 3;
            }
        }
        if c == 0 {
            for e in 0..64u32 {
                let p = 1u64 << e;
                for x in [p, p.wrapping_sub(1), p + 1] {
                    check_sqrti(s, x);
                    n += 1;
                }
            }
            for d in 0..2048u64 {
                check_sqrti(s, (1u64 << 52) - 1024 + d);
                check_sqrti(s, u64::MAX - d);
                check_sqrti(s, (1u64 << 53) - 1024 + d);
                check_sqrti(s, (1u64 << 54) - 1024 + d);
                // just below large perfect squares (where the f64 result rounds up)
                let k = 0xffff_ff00u64 + (d & 0xff);
                check_sqrti(s, k * k - 1 - (d >> 8));
                n += 5;
            }
        }
        s.count("evaluations", n);
        s.count("distinct_nontrivial", n);
    }
    if !s.expired() {
        s.done("sqrti");
    }
    s.sample("sqrti", || json!({"arg": "0xfffffffe00000000 (= (2^32-1)^2 - 1)"}));
    // bpf_trace_printf
    let idx = g;
    g += 1;
    if s.take(idx) {
        let vals = printf_values();
        let mut cases: Vec<[u64; 3]> = vec![];
        for pos in 0..3 {
            for v in &vals {
                let mut c = [0x1234u64, 0x5, 0xabcdef];
                c[pos] = *v;
                cases.push(c);
            }
        }
        let sub = [0u64, 1, 0xf, 0x10, 0xffff_ffff_ffff, 0x1_0000_0000_0000, u64::MAX, 1 << 63];
        for a in sub {
            for b in sub {
                for c in sub {
                    cases.push([a, b, c]);
                }
            }
        }
        for chunk in cases.chunks(400) {
            check_printf_batch(s, chunk);
        }
        s.count("evaluations", cases.len() as u64);
        s.count("distinct_nontrivial", cases.len() as u64);
        s.sample("bpf_trace_printf", || json!({"args": ["0xffffffffffff", "0x10", "0xffffffffffffffff"]}));
        s.done("bpf_trace_printf");
    }
    // rand
    let idx = g;
    if s.take(idx) {
        // both sides of every power of two that a narrower intermediate type could stop at; every
        // ordered pair (the range claim applies when min < max, "never panics" to all of them)
        let mut vals: Vec<u64> = vec![0, 1, 2, 3, u64::MAX - 1, u64::MAX];
        for k in [7u32, 8, 15, 16, 31, 32, 33, 52, 53, 63] {
            vals.extend([(1u64 << k) - 1, 1u64 << k, (1u64 << k) + 1]);
        }
        vals.sort();
        vals.dedup();
        let mut n = 0;
        for a in &vals {
            for b in &vals {
                check_rand(s, *a, *b);
                n += 64;
            }
        }
        s.count("evaluations", n);
        s.count("distinct_nontrivial", n / 64);
        s.sample("rand", || json!({"min": 0, "max": "0xffffffffffffffff"}));
        s.done("rand");
    }
}

pub fn replay(v: &Value) -> Vec<String> {
    let mut s = Sink::new("replay", Tier::Quick, 0, 1, None, None, 3600);
    let args = v["args"].as_array().unwrap();
    let px = |x: &Value| u64::from_str_radix(x.as_str().unwrap().trim_start_matches("0x"), 16).unwrap();
    match v["name"].as_str().unwrap() {
        "gather_bytes" => check_gather(&mut s, [px(&args[0]), px(&args[1]), px(&args[2]), px(&args[3]), px(&args[4])]),
        "sqrti" => check_sqrti(&mut s, px(&args[0])),
        "memfrob" => check_memfrob(&mut s, args[0].as_u64().unwrap() as usize, args[1].as_u64().unwrap() as usize, args[2].as_u64().unwrap() as u8),
        "strcmp-long" => check_strcmp_long(&mut s, args[0].as_u64().unwrap() as usize, &unhex(args[1].as_str().unwrap()), &unhex(args[2].as_str().unwrap())),
        "strcmp" => check_strcmp(&mut s, &unhex(args[0].as_str().unwrap()), &unhex(args[1].as_str().unwrap())),
        "bpf_trace_printf" => check_printf_batch(&mut s, &[[px(&args[0]), px(&args[1]), px(&args[2])]]),
        "rand" => check_rand(&mut s, px(&args[0]), px(&args[1])),
        _ => {}
    }
    let r = s.finish();
    r["violations"].as_array().unwrap().iter().map(|x| format!("{}: {}", x["sig"].as_str().unwrap(), x["detail"].as_str().unwrap())).collect()
}
