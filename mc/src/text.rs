//! Engine `text`: C13 (assembler encodes what is written), C14 (assembler total),
//! C15 (disassembler fields/text), C16 (round trip), C17 (encode/decode/builder).

use crate::asmref::{self, Form, Mn, Op, Spell};
use crate::common::*;
use crate::isa::{self, I, Kind};
use serde_json::{json, Value};

fn offs_alphabet(all: bool) -> Vec<i16> {
    if all {
        return (i16::MIN..=i16::MAX).collect();
    }
    let mut v: Vec<i16> = vec![0, 1, -1, 2, -2, 7, 8, -8, 15, 16, 127, 128, -127, -128, -129, 255, 256, -255, -256, -257, 0x7ffe, 0x7fff, -0x7fff, -0x8000, 0x1234, -0x1234, 0x00ff, 0x0100, 0x7f00, -0x100];
    for k in 0..15 {
        v.push(1 << k);
        v.push(-(1 << k));
        v.push((1 << k) - 1);
    }
    v.sort();
    v.dedup();
    v
}

fn imm_alphabet() -> Vec<i32> {
    let mut v: Vec<i32> = I32S.to_vec();
    for k in 0..31 {
        v.push(1 << k);
        v.push((1i32 << k).wrapping_sub(1));
        v.push((1i32 << k).wrapping_neg());
    }
    v.push(i32::MIN);
    v.sort();
    v.dedup();
    v
}

/// A canonical instance of the opcode (fields the assembler can express, non-negative immediate).
pub fn twin_bases(opc: u8, k: Kind) -> Vec<Vec<I>> {
    if matches!(k, Kind::LdDw) {
        return vec![vec![I::new(opc, 3, 0, 0, 0x44332211), I::new(0, 0, 0, 0, 0x08776655)]];
    }
    let (ud, us, uo, ui) = isa::uses(k);
    let imm = if matches!(k, Kind::End { .. }) { 32 } else if ui { 0x1234 } else { 0 };
    vec![vec![I::new(opc, if ud { 3 } else { 0 }, if matches!(k, Kind::Call) { 1 } else if us { 4 } else { 0 }, if uo { 5 } else { 0 }, imm)]]
}

/// The base itself and every variant that differs from it in exactly one used field.
pub fn twin_variants(base: &[I], k: Kind) -> Vec<Vec<I>> {
    let mut v = vec![base.to_vec()];
    let b = base[0];
    if matches!(k, Kind::LdDw) {
        let hi = base[1];
        v.push(vec![I { dst: 4, ..b }, hi]);
        v.push(vec![I { imm: 0x44332212, ..b }, hi]);
        v.push(vec![b, I { imm: 0x08776656, ..hi }]);
        v.push(vec![b, I { imm: 0, ..hi }]);
        v.push(vec![b, I { imm: -1, ..hi }]);
        return v;
    }
    let (ud, us, uo, ui) = isa::uses(k);
    if ud {
        v.push(vec![I { dst: 5, ..b }]);
    }
    if us && !matches!(k, Kind::Call) {
        v.push(vec![I { src: 6, ..b }]);
    }
    if matches!(k, Kind::Call) {
        v.push(vec![I { src: 0, ..b }]);
    }
    if uo {
        v.push(vec![I { off: 6, ..b }]);
        v.push(vec![I { off: -5, ..b }]);
    }
    if matches!(k, Kind::End { .. }) {
        v.push(vec![I { imm: 16, ..b }]);
        v.push(vec![I { imm: 64, ..b }]);
    } else if ui {
        v.push(vec![I { imm: 0x1235, ..b }]);
        v.push(vec![I { imm: 0x7fff1234, ..b }]);
    }
    v
}

/// Every skeleton of `n` slots whose first slot is `first` (see isaeng layer 3).
pub fn skeletons_from(n: usize, first: crate::isaeng::Slot, f: &mut dyn FnMut(&[crate::isaeng::Slot])) {
    fn rec(n: usize, cur: &mut Vec<crate::isaeng::Slot>, f: &mut dyn FnMut(&[crate::isaeng::Slot])) {
        if cur.len() == n {
            f(cur);
            return;
        }
        for c in crate::isaeng::slot_choices(cur.len(), n, true) {
            cur.push(c);
            rec(n, cur, f);
            cur.pop();
        }
    }
    let mut cur = vec![first];
    rec(n, &mut cur, f);
}

// ==========================================================================================
// C17

fn c17_check_slot(s: &mut Sink, bytes: [u8; 8], idx: usize, prog: &[u8]) {
    let want = I::decode(&bytes);
    let got = match catch(|| rbpf::ebpf::get_insn(prog, idx)) {
        Ok(g) => g,
        Err(m) => {
            s.violation(&format!("ebpf/get_insn/{}", panic_class(&m)), format!("get_insn panicked: {m}"), json!({"kind":"c17-slot","bytes":hex(&bytes),"idx":idx}));
            return;
        }
    };
    if got.opc != want.opc || got.dst != want.dst || got.src != want.src || got.off != want.off || got.imm != want.imm {
        let field = if got.opc != want.opc {
            "opc"
        } else if got.dst != want.dst {
            "dst"
        } else if got.src != want.src {
            "src"
        } else if got.off != want.off {
            "off"
        } else {
            "imm"
        };
        s.violation(&format!("ebpf/get_insn/field-mismatch:{field}"), format!("decode of {} at index {idx}: got {:?}, want {:?}", hex(&bytes), got, want), json!({"kind":"c17-slot","bytes":hex(&bytes),"idx":idx}));
        return;
    }
    let arr = got.to_array();
    if arr != bytes {
        s.violation("ebpf/to_array/bytes-mismatch", format!("to_array of decoded {} gives {}", hex(&bytes), hex(&arr)), json!({"kind":"c17-slot","bytes":hex(&bytes),"idx":idx}));
    }
    let v = got.to_vec();
    if v[..] != bytes[..] {
        s.violation("ebpf/to_vec/bytes-mismatch", format!("to_vec of decoded {} gives {}", hex(&bytes), hex(&v)), json!({"kind":"c17-slot","bytes":hex(&bytes),"idx":idx}));
    }
}

fn c17_check_insn(s: &mut Sink, i: I) {
    // Insn -> bytes -> Insn (other direction), both encoders, against own encoder
    let r = rbpf::ebpf::Insn { opc: i.opc, dst: i.dst, src: i.src, off: i.off, imm: i.imm };
    let own = i.bytes();
    let arr = r.to_array();
    let rp = json!({"kind":"c17-insn","insn":[i.opc,i.dst,i.src,i.off,i.imm]});
    if arr != own {
        s.violation("ebpf/to_array/encoding-mismatch", format!("{:?} encodes to {} want {}", i, hex(&arr), hex(&own)), rp.clone());
    }
    let v = r.to_vec();
    if v[..] != own[..] {
        s.violation("ebpf/to_vec/encoding-mismatch", format!("{:?} to_vec {} want {}", i, hex(&v), hex(&own)), rp.clone());
    }
    let back = rbpf::ebpf::get_insn(&arr, 0);
    if back != r {
        s.violation("ebpf/roundtrip/insn-mismatch", format!("{:?} -> {} -> {:?}", r, hex(&arr), back), rp);
    }
}

pub fn run_c17(s: &mut Sink) {
    let thorough = s.tier == Tier::Thorough;
    let offs_q = offs_alphabet(false);
    s.meta.insert("alphabet".into(), json!({
        "slot_fields": if thorough {"all 256 opcodes x all 256 register bytes x all 65536 offsets; all 2^32 immediates"} else {"all 256 opcodes x all 256 register bytes x boundary offsets; all 65536 offsets for 3 opcodes x 3 register bytes; per-byte-lane immediates"},
        "offsets_quick": offs_q.len(),
        "indices": [0, 1, 999_999],
        "builder": "13 ALU ops x {imm,reg} x {32,64}, swap x2, load/load_abs/load_ind/load_x x 4 sizes, store/store_x x 4 sizes, jumps 12 conds x {imm,reg}, call, exit; dst,src in 0..15",
    }));
    s.meta.insert("bound".into(), json!(if thorough {"complete per field"} else {"boundary alphabets per field"}));

    // --- A: opcode x register byte x offset, decode/encode identity -------------------
    let mut g = 0u64;
    for opc in 0..=255u8 {
        let idx = g;
        g += 1;
        if !s.take(idx) {
            continue;
        }
        if s.expired() {
            s.cut("slot: opc x regbyte x off");
            break;
        }
        let mut n = 0u64;
        for reg in 0..=255u8 {
            let full = thorough || (matches!(opc, 0x00 | 0x07 | 0xff) && matches!(reg, 0x00 | 0xa5 | 0xff));
            let imm = 0x80402010u32.wrapping_mul(opc as u32 + 1).to_le_bytes();
            if full {
                for off in 0..=65535u16 {
                    let b = [opc, reg, off as u8, (off >> 8) as u8, imm[0], imm[1], imm[2], imm[3]];
                    c17_check_slot(s, b, 0, &b);
                    n += 1;
                }
            } else {
                for off in &offs_q {
                    let o = *off as u16;
                    let b = [opc, reg, o as u8, (o >> 8) as u8, imm[0], imm[1], imm[2], imm[3]];
                    c17_check_slot(s, b, 0, &b);
                    n += 1;
                }
            }
        }
        s.count("evaluations", n);
        // every slot here is distinct by construction; non-trivial = some field non-zero
        s.count("distinct_nontrivial", n - if opc == 0 { 1 } else { 0 });
    }
    if !s.expired() {
        s.done("slot: opc x regbyte x off");
    }

    // --- B: immediates ------------------------------------------------------------------
    for top in 0..=255u8 {
        let idx = g;
        g += 1;
        if !s.take(idx) {
            continue;
        }
        if s.expired() {
            s.cut("slot: immediates");
            break;
        }
        let mut n = 0u64;
        let head = [0xb7u8, 0x21, 0x34, 0x12];
        if thorough {
            for low in 0..(1u32 << 24) {
                let imm = ((top as u32) << 24) | low;
                let ib = imm.to_le_bytes();
                let b = [head[0], head[1], head[2], head[3], ib[0], ib[1], ib[2], ib[3]];
                c17_check_slot(s, b, 0, &b);
                n += 1;
            }
        } else {
            // each byte lane takes `top`, the other lanes take boundary bytes
            let others = [0x00u8, 0xff, 0x80, 0x7f, 0xa5];
            for lane in 0..4 {
                for a in others {
                    for b2 in others {
                        for c in others {
                            let mut ib = [a, b2, c, 0];
                            ib.rotate_right(0);
                            let mut lanes = [0u8; 4];
                            let mut k = 0;
                            for l in 0..4 {
                                if l == lane {
                                    lanes[l] = top;
                                } else {
                                    lanes[l] = ib[k];
                                    k += 1;
                                }
                            }
                            let b = [head[0], head[1], head[2], head[3], lanes[0], lanes[1], lanes[2], lanes[3]];
                            c17_check_slot(s, b, 0, &b);
                            n += 1;
                        }
                    }
                }
            }
        }
        s.count("evaluations", n);
        s.count("distinct_nontrivial", if thorough { n } else { n / 4 }); // quick: lanes overlap, count conservatively
    }
    if !s.expired() {
        s.done("slot: immediates");
    }

    // --- C: instruction indices -----------------------------------------------------------
    {
        let idx = g;
        g += 1;
        if s.take(idx) {
            let mut n = 0u64;
            for &at in &[0usize, 1, 999_999] {
                let mut prog = vec![0xeeu8; (at + 1) * 8];
                for opc in [0x00u8, 0x07, 0x18, 0x61, 0x7b, 0x85, 0x95, 0xd4, 0xdc, 0xff] {
                    for reg in [0x00u8, 0x1a, 0xa1, 0xff, 0x90] {
                        for off in O16 {
                            for imm in I32S {
                                let i = I::new(opc, reg & 15, reg >> 4, off, imm);
                                let b = i.bytes();
                                prog[at * 8..at * 8 + 8].copy_from_slice(&b);
                                c17_check_slot(s, b, at, &prog);
                                n += 1;
                            }
                        }
                    }
                }
            }
            s.count("evaluations", n);
            s.count("distinct_nontrivial", n);
            s.sample("slot-at-index", || json!({"bytes": "95a1ff7f78563412", "index": 999_999}));
            s.done("slot at indices 0, 1, 999999");
        }
    }

    // --- C2: the whole-program decoder agrees with the single-slot decoder at every index, in
    // particular after a slot whose opcode is that of a wide load
    {
        let idx = g;
        g += 1;
        if s.take(idx) {
            let mut n = 0u64;
            let slots: Vec<I> = vec![
                I::new(0x18, 1, 0, 0, 0x11223344), I::new(0x00, 0, 0, 0, 0x55667788), I::new(0x00, 0xa, 0xb, -2, -1), I::new(0x95, 0, 0, 0, 0),
                I::new(0xbf, 3, 4, 0, 0), I::new(0x18, 15, 15, -1, -1), I::new(0xff, 15, 15, i16::MIN, i32::MIN), I::new(0x05, 0, 0, 0x1234, 0), I::new(0x7b, 10, 9, -8, 7),
            ];
            for a in &slots {
                for b in &slots {
                    for c in &slots {
                        for d in &slots {
                            let prog = isa::enc(&[*a, *b, *c, *d]);
                            n += 1;
                            match catch(|| rbpf::ebpf::to_insn_vec(&prog)) {
                                Err(m) => s.violation(&format!("ebpf/to_insn_vec/{}", panic_class(&m)), format!("to_insn_vec({}) panicked: {m}", hex(&prog)), json!({"kind":"c17-vec","prog":hex(&prog)})),
                                Ok(v) => {
                                    let ok = v.len() == 4 && (0..4).all(|k| {
                                        let w = I::decode(&prog[k * 8..k * 8 + 8]);
                                        v[k].opc == w.opc && v[k].dst == w.dst && v[k].src == w.src && v[k].off == w.off && v[k].imm == w.imm && v[k].to_array()[..] == prog[k * 8..k * 8 + 8]
                                    });
                                    if !ok {
                                        s.violation("ebpf/to_insn_vec/differs-from-slot-decoding", format!("to_insn_vec({}) does not decode every slot to its own fields", hex(&prog)), json!({"kind":"c17-vec","prog":hex(&prog)}));
                                    }
                                }
                            }
                        }
                    }
                }
            }
            // a byte string longer than the verifier's program limit is still a sequence of slots
            for slots in [999_999usize, 1_000_000, 1_000_001, 1_000_002, 1_048_577] {
                let mut prog = vec![0u8; slots * 8];
                for k in [0usize, 1, slots / 2, slots - 2, slots - 1] {
                    prog[k * 8..k * 8 + 8].copy_from_slice(&I::new(0xb7, (k % 10) as u8, 0, 0, k as i32).bytes());
                }
                n += 1;
                match catch(|| rbpf::ebpf::to_insn_vec(&prog)) {
                    Err(m) => s.violation(&format!("ebpf/to_insn_vec/{}", panic_class(&m)), format!("to_insn_vec of {slots} slots panicked: {m}"), json!({"kind":"none"})),
                    Ok(v) => {
                        let ok = v.len() == slots && [0usize, 1, slots / 2, slots - 2, slots - 1].iter().all(|k| v[*k].to_array()[..] == prog[k * 8..k * 8 + 8]);
                        if !ok {
                            s.violation("ebpf/to_insn_vec/differs-from-slot-decoding", format!("to_insn_vec of a {slots}-slot byte string returned {} instructions / wrong fields", v.len()), json!({"kind":"none"}));
                        }
                    }
                }
            }
            s.count("evaluations", n);
            s.count("distinct_nontrivial", n);
            s.done("to_insn_vec vs get_insn on all 4-slot programs over 9 slot values; byte strings of 999,999 .. 1,048,577 slots");
        }
    }

    // --- D: Insn -> bytes -> Insn ---------------------------------------------------------
    for opc in 0..=255u8 {
        let idx = g;
        g += 1;
        if !s.take(idx) {
            continue;
        }
        let mut n = 0u64;
        for dst in 0..16u8 {
            for src in 0..16u8 {
                for off in O16 {
                    for imm in I32S {
                        c17_check_insn(s, I::new(opc, dst, src, off, imm));
                        n += 1;
                    }
                }
            }
        }
        s.count("evaluations", n);
        s.count("distinct_nontrivial", n);
    }
    s.done("Insn -> to_array/to_vec -> get_insn");
    s.sample("insn", || json!({"insn": {"opc": 0x7b, "dst": 10, "src": 15, "off": -32768, "imm": i32::MIN}}));

    // --- E: builder -----------------------------------------------------------------------
    c17_builder(s, &mut g);
}

#[derive(Clone, Copy, Debug)]
enum Ctor {
    Alu(u8, bool, bool), // op nibble, reg, is64
    Neg(bool),
    Swap(bool),
    Load(u8),
    LoadAbs(u8),
    LoadInd(u8),
    LoadX(u8),
    Store(u8),
    StoreX(u8),
    JumpUncond,
    Jump(u8, bool),
    Call,
    Exit,
}

fn ctor_list() -> Vec<Ctor> {
    let mut v = vec![];
    for op in [0x0u8, 0x1, 0x2, 0x3, 0x4, 0x5, 0x6, 0x7, 0x9, 0xa, 0xb, 0xc] {
        for reg in [false, true] {
            for is64 in [false, true] {
                v.push(Ctor::Alu(op, reg, is64));
            }
        }
    }
    v.push(Ctor::Neg(false));
    v.push(Ctor::Neg(true));
    v.push(Ctor::Swap(false));
    v.push(Ctor::Swap(true));
    for sz in 0..4u8 {
        v.push(Ctor::Load(sz));
        v.push(Ctor::LoadAbs(sz));
        v.push(Ctor::LoadInd(sz));
        v.push(Ctor::LoadX(sz));
        v.push(Ctor::Store(sz));
        v.push(Ctor::StoreX(sz));
    }
    v.push(Ctor::JumpUncond);
    for c in [0x0u8, 0x1, 0x2, 0x3, 0xa, 0xb, 0x4, 0x5, 0x6, 0x7, 0xc, 0xd] {
        for reg in [false, true] {
            v.push(Ctor::Jump(c, reg));
        }
    }
    v.push(Ctor::Call);
    v.push(Ctor::Exit);
    v
}

/// Own statement of the opcode each constructor denotes (class | size/source | op).
fn ctor_opcode(c: Ctor) -> u8 {
    let size_bits = |sz: u8| -> u8 {
        match sz {
            0 => 0x10, // byte
            1 => 0x08, // half
            2 => 0x00, // word
            _ => 0x18, // double word
        }
    };
    match c {
        Ctor::Alu(op, reg, is64) => (op << 4) | if reg { 0x08 } else { 0 } | if is64 { 0x07 } else { 0x04 },
        Ctor::Neg(is64) => 0x80 | if is64 { 0x07 } else { 0x04 },
        Ctor::Swap(big) => 0xd4 | if big { 0x08 } else { 0 },
        Ctor::Load(sz) => size_bits(sz),
        Ctor::LoadAbs(sz) => 0x20 | size_bits(sz),
        Ctor::LoadInd(sz) => 0x40 | size_bits(sz),
        Ctor::LoadX(sz) => 0x61 | size_bits(sz),
        Ctor::Store(sz) => 0x62 | size_bits(sz),
        Ctor::StoreX(sz) => 0x63 | size_bits(sz),
        Ctor::JumpUncond => 0x05,
        Ctor::Jump(c, reg) => (c << 4) | if reg { 0x08 } else { 0 } | 0x05,
        Ctor::Call => 0x85,
        Ctor::Exit => 0x95,
    }
}

fn build_with(code: &mut rbpf::insn_builder::BpfCode, c: Ctor, dst: u8, src: u8, off: i16, imm: i32) {
    use rbpf::insn_builder::*;
    let msz = |sz: u8| match sz {
        0 => MemSize::Byte,
        1 => MemSize::HalfWord,
        2 => MemSize::Word,
        _ => MemSize::DoubleWord,
    };
    match c {
        Ctor::Alu(op, reg, is64) => {
            let so = if reg { Source::Reg } else { Source::Imm };
            let ar = if is64 { Arch::X64 } else { Arch::X32 };
            let m = match op {
                0x0 => code.add(so, ar),
                0x1 => code.sub(so, ar),
                0x2 => code.mul(so, ar),
                0x3 => code.div(so, ar),
                0x4 => code.bit_or(so, ar),
                0x5 => code.bit_and(so, ar),
                0x6 => code.left_shift(so, ar),
                0x7 => code.right_shift(so, ar),
                0x9 => code.modulo(so, ar),
                0xa => code.bit_xor(so, ar),
                0xb => code.mov(so, ar),
                _ => code.signed_right_shift(so, ar),
            };
            m.set_dst(dst).set_src(src).set_off(off).set_imm(imm).push();
        }
        Ctor::Neg(is64) => {
            code.negate(if is64 { Arch::X64 } else { Arch::X32 }).set_dst(dst).set_src(src).set_off(off).set_imm(imm).push();
        }
        Ctor::Swap(big) => {
            code.swap_bytes(if big { Endian::Big } else { Endian::Little }).set_dst(dst).set_src(src).set_off(off).set_imm(imm).push();
        }
        Ctor::Load(sz) => {
            code.load(msz(sz)).set_dst(dst).set_src(src).set_off(off).set_imm(imm).push();
        }
        Ctor::LoadAbs(sz) => {
            code.load_abs(msz(sz)).set_dst(dst).set_src(src).set_off(off).set_imm(imm).push();
        }
        Ctor::LoadInd(sz) => {
            code.load_ind(msz(sz)).set_dst(dst).set_src(src).set_off(off).set_imm(imm).push();
        }
        Ctor::LoadX(sz) => {
            code.load_x(msz(sz)).set_dst(dst).set_src(src).set_off(off).set_imm(imm).push();
        }
        Ctor::Store(sz) => {
            code.store(msz(sz)).set_dst(dst).set_src(src).set_off(off).set_imm(imm).push();
        }
        Ctor::StoreX(sz) => {
            code.store_x(msz(sz)).set_dst(dst).set_src(src).set_off(off).set_imm(imm).push();
        }
        Ctor::JumpUncond => {
            code.jump_unconditional().set_dst(dst).set_src(src).set_off(off).set_imm(imm).push();
        }
        Ctor::Jump(c, reg) => {
            let cond = match c {
                0x0 => Cond::Abs,
                0x1 => Cond::Equals,
                0x2 => Cond::Greater,
                0x3 => Cond::GreaterEquals,
                0xa => Cond::Lower,
                0xb => Cond::LowerEquals,
                0x4 => Cond::BitAnd,
                0x5 => Cond::NotEquals,
                0x6 => Cond::GreaterSigned,
                0x7 => Cond::GreaterEqualsSigned,
                0xc => Cond::LowerSigned,
                _ => Cond::LowerEqualsSigned,
            };
            code.jump_conditional(cond, if reg { Source::Reg } else { Source::Imm }).set_dst(dst).set_src(src).set_off(off).set_imm(imm).push();
        }
        Ctor::Call => {
            code.call().set_dst(dst).set_src(src).set_off(off).set_imm(imm).push();
        }
        Ctor::Exit => {
            code.exit().set_dst(dst).set_src(src).set_off(off).set_imm(imm).push();
        }
    }
}

fn c17_builder(s: &mut Sink, g: &mut u64) {
    use rbpf::insn_builder::IntoBytes;
    let thorough = s.tier == Tier::Thorough;
    let offs = offs_alphabet(thorough);
    let ctors = ctor_list();
    for (ci, c) in ctors.iter().enumerate() {
        let idx = *g;
        *g += 1;
        if !s.take(idx) {
            continue;
        }
        if s.expired() {
            s.cut("builder");
            break;
        }
        let opc = ctor_opcode(*c);
        let mut n = 0u64;
        let imms: &[i32] = &I32S;
        for dst in 0..16u8 {
            for src in 0..16u8 {
                for off in &offs {
                    // full imm set only for a diagonal of registers / offset 0; thorough (all 65536
                    // offsets): off the diagonal only boundary offsets get more than one immediate
                    if thorough && dst != src && dst != 0 && src != 0 && (*off as i32).rem_euclid(257) != 0 {
                        continue;
                    }
                    let imm_set: &[i32] = if dst == src || *off == 0 { imms } else { &imms[..4] };
                    for imm in imm_set {
                        let want = I::new(opc, dst, src, *off, *imm);
                        let got = catch(|| {
                            let mut code = rbpf::insn_builder::BpfCode::new();
                            build_with(&mut code, *c, dst, src, *off, *imm);
                            code.into_bytes().to_vec()
                        });
                        n += 1;
                        let rp = json!({"kind":"c17-builder","ctor":ci,"fields":[dst,src,off,imm]});
                        match got {
                            Err(m) => s.violation(&format!("builder/{:?}/{}", c, panic_class(&m)), format!("builder panicked: {m}"), rp),
                            Ok(b) => {
                                if b[..] != want.bytes()[..] {
                                    s.violation(&format!("builder/{:?}/bytes-mismatch", c), format!("builder gives {} want {}", hex(&b), hex(&want.bytes())), rp.clone());
                                }
                                let enc = rbpf::ebpf::Insn { opc, dst, src, off: *off, imm: *imm }.to_array();
                                if b[..] != enc[..] {
                                    s.violation(&format!("builder/{:?}/differs-from-encoder", c), format!("builder gives {} encoder {}", hex(&b), hex(&enc)), rp);
                                }
                            }
                        }
                    }
                }
            }
        }
        // agreement with the assembler on instructions both can express (unused fields zero)
        if let Some(k) = isa::kind(opc) {
            if !matches!(k, Kind::Xadd(_) | Kind::LdDw) {
                let (ud, us, uo, ui) = isa::uses(k);
                for dst in if ud { 0..16u8 } else { 0..1 } {
                    for src in if us && !matches!(k, Kind::Call) { 0..16u8 } else { 0..1 } {
                        for off in if uo { &offs[..] } else { &[0i16][..] } {
                            let immset: Vec<i32> = if matches!(k, Kind::End { .. }) { vec![16, 32, 64] } else if ui { I32S.to_vec() } else { vec![0] };
                            for imm in immset {
                                let i = I::new(opc, dst, src, *off, imm);
                                let Some(text) = asmref::render(&i, None) else { continue };
                                let mut code = rbpf::insn_builder::BpfCode::new();
                                build_with(&mut code, *c, dst, src, *off, imm);
                                let b = code.into_bytes().to_vec();
                                n += 1;
                                match catch(|| rbpf::assembler::assemble(&text)) {
                                    Ok(Ok(a)) if a == b => {}
                                    other => {
                                        s.violation(&format!("builder/{:?}/differs-from-assembler", c), format!("builder {} vs assemble({text:?}) = {:?}", hex(&b), other.map(|r| r.map(|v| hex(&v)))), json!({"kind":"c17-builder-asm","ctor":ci,"fields":[dst,src,off,imm]}));
                                    }
                                }
                            }
                        }
                    }
                }
            }
        }
        s.count("evaluations", n);
        s.count("distinct_nontrivial", n);
        s.sample("builder", || json!({"ctor": format!("{:?}", c), "opcode": opc, "dst": 15, "src": 15, "off": -32768, "imm": i32::MIN}));
    }
    // order of several instructions
    let idx = *g;
    *g += 1;
    if s.take(idx) {
        let mut n = 0u64;
        for a in 0..ctors.len() {
            for b in 0..ctors.len() {
                // `reads`: bit k set = the bytes are also read after push k (a builder is a value with
                // a history: reading it must not change what later pushes produce)
                for reads in 0..4u8 {
                    let mut code = rbpf::insn_builder::BpfCode::new();
                    let want = isa::enc(&[I::new(ctor_opcode(ctors[a]), 1, 2, 3, 4), I::new(ctor_opcode(ctors[b]), 5, 6, -7, -8), I::new(ctor_opcode(ctors[a]), 9, 10, 11, 12)]);
                    let mut bad: Option<(usize, Vec<u8>)> = None;
                    build_with(&mut code, ctors[a], 1, 2, 3, 4);
                    if reads & 1 != 0 {
                        let got = code.into_bytes().to_vec();
                        if got != want[..8] {
                            bad = Some((1, got));
                        }
                    }
                    build_with(&mut code, ctors[b], 5, 6, -7, -8);
                    if reads & 2 != 0 && bad.is_none() {
                        let got = code.into_bytes().to_vec();
                        if got != want[..16] {
                            bad = Some((2, got));
                        }
                    }
                    build_with(&mut code, ctors[a], 9, 10, 11, 12);
                    let got = code.into_bytes().to_vec();
                    if got != want && bad.is_none() {
                        bad = Some((3, got));
                    }
                    n += 1;
                    if let Some((k, got)) = bad {
                        s.violation("builder/sequence/bytes-mismatch", format!("builder program read after push {k} (reads mask {reads:#04b}) gives {} want {}", hex(&got), hex(&want[..8 * k])), json!({"kind":"c17-builder-seq","a":a,"b":b,"reads":reads}));
                    }
                }
            }
        }
        s.count("evaluations", n);
        s.count("distinct_nontrivial", n);
    }
    if !s.expired() {
        s.done("builder constructors x fields; builder vs encoder vs assembler; every ordered pair of constructors (a, b, a) on one BpfCode");
    }
    // all encoders agree on whole programs too: every sequence of 1..=4 instructions over two wide
    // loads, a move, a jump and exit, assembled, against the concatenation of rbpf's own Insn::to_array
    let idx = *g;
    *g += 1;
    if s.take(idx) {
        let atoms: Vec<(&str, Vec<I>)> = vec![
            ("lddw r1, 0x1122334455667788", isa::lddw(1, 0x1122334455667788).to_vec()),
            ("lddw r2, 0xffffffff80000001", isa::lddw(2, 0xffffffff80000001).to_vec()),
            ("mov64 r3, 7", vec![isa::mov64i(3, 7)]),
            ("ja +1", vec![isa::ja(1)]),
            ("exit", vec![isa::EXIT]),
            ("callx 2", vec![I::new(0x85, 0, 1, 0, 2)]),
            ("callx -3", vec![I::new(0x85, 0, 1, 0, -3)]),
        ];
        let mut n = 0u64;
        // the builder, instruction after instruction, read back after every push (70 pushes: any
        // internal storage threshold below that is crossed)
        {
            use rbpf::insn_builder::{Arch, BpfCode, Instruction, IntoBytes, Source};
            let mut code = BpfCode::new();
            let mut want: Vec<u8> = vec![];
            for k in 0..70i32 {
                if k % 3 == 2 {
                    code.exit().push();
                    want.extend_from_slice(&isa::EXIT.bytes());
                } else {
                    code.mov(Source::Imm, Arch::X64).set_dst((k % 10) as u8).set_imm(k).push();
                    want.extend_from_slice(&isa::mov64i((k % 10) as u8, k).bytes());
                }
                let got = code.into_bytes().to_vec();
                n += 1;
                if got != want {
                    s.violation("builder/sequence/bytes-mismatch", format!("after {} pushes the builder holds {} bytes, expected {} ({}...)", k + 1, got.len(), want.len(), hex(&got[..got.len().min(16)])), json!({"kind":"none"}));
                    break;
                }
            }
        }
        let mut stack: Vec<Vec<usize>> = (0..atoms.len()).map(|a| vec![a]).collect();
        for _len in 1..=4 {
            let mut next = vec![];
            for sq in &stack {
                let text: String = sq.iter().map(|k| atoms[*k].0).collect::<Vec<_>>().join("\n");
                let mut want: Vec<u8> = vec![];
                for k in sq {
                    for i in &atoms[*k].1 {
                        want.extend_from_slice(&rbpf::ebpf::Insn { opc: i.opc, dst: i.dst, src: i.src, off: i.off, imm: i.imm }.to_array());
                    }
                }
                n += 1;
                match catch(|| rbpf::assembler::assemble(&text)) {
                    Ok(Ok(b)) if b == want => {}
                    other => s.violation("ebpf/program/assembler-differs-from-encoder", format!("assemble({text:?}) = {:?}, Insn::to_array gives {}", other.map(|r| r.map(|b| hex(&b))), hex(&want)), json!({"kind":"asm","text":text,"want":hex(&want)})),
                }
                for a in 0..atoms.len() {
                    let mut x = sq.clone();
                    x.push(a);
                    next.push(x);
                }
            }
            stack = next;
        }
        s.count("evaluations", n);
        s.count("distinct_nontrivial", n);
        s.done("assembler vs Insn::to_array on every program of 1..=4 instructions over two wide loads, a move, a jump, exit");
    }
}

pub fn replay_c17(v: &Value) -> Vec<String> {
    let mut s = Sink::new("C17", Tier::Quick, 0, 1, None, None, 3600);
    match v["kind"].as_str().unwrap_or("") {
        "c17-slot" => {
            let b = unhex(v["bytes"].as_str().unwrap());
            let idx = v["idx"].as_u64().unwrap() as usize;
            let mut prog = vec![0xeeu8; (idx + 1) * 8];
            prog[idx * 8..idx * 8 + 8].copy_from_slice(&b);
            let mut a = [0u8; 8];
            a.copy_from_slice(&b);
            c17_check_slot(&mut s, a, idx, &prog);
        }
        "c17-vec" => {
            let prog = unhex(v["prog"].as_str().unwrap());
            return match catch(|| rbpf::ebpf::to_insn_vec(&prog)) {
                Err(m) => vec![format!("to_insn_vec panicked: {m}")],
                Ok(x) => {
                    let ok = x.len() * 8 == prog.len() && (0..x.len()).all(|k| x[k].to_array()[..] == prog[k * 8..k * 8 + 8]);
                    if ok { vec![] } else { vec![format!("to_insn_vec({}) does not decode every slot to its own fields", hex(&prog))] }
                }
            };
        }
        "c17-insn" => {
            let f = v["insn"].as_array().unwrap();
            c17_check_insn(&mut s, I::new(f[0].as_u64().unwrap() as u8, f[1].as_u64().unwrap() as u8, f[2].as_u64().unwrap() as u8, f[3].as_i64().unwrap() as i16, f[4].as_i64().unwrap() as i32));
        }
        "c17-builder" | "c17-builder-asm" => {
            use rbpf::insn_builder::IntoBytes;
            let c = ctor_list()[v["ctor"].as_u64().unwrap() as usize];
            let f = v["fields"].as_array().unwrap();
            let (dst, src, off, imm) = (f[0].as_u64().unwrap() as u8, f[1].as_u64().unwrap() as u8, f[2].as_i64().unwrap() as i16, f[3].as_i64().unwrap() as i32);
            let want = I::new(ctor_opcode(c), dst, src, off, imm);
            let got = catch(|| {
                let mut code = rbpf::insn_builder::BpfCode::new();
                build_with(&mut code, c, dst, src, off, imm);
                code.into_bytes().to_vec()
            });
            let mut out = vec![];
            match got {
                Err(m) => out.push(format!("builder panicked: {m}")),
                Ok(b) => {
                    if b[..] != want.bytes()[..] {
                        out.push(format!("builder gives {} want {}", hex(&b), hex(&want.bytes())));
                    }
                    if let Some(text) = asmref::render(&want, None) {
                        if v["kind"] == "c17-builder-asm" {
                            match catch(|| rbpf::assembler::assemble(&text)) {
                                Ok(Ok(a)) if a == b => {}
                                o => out.push(format!("assemble({text:?}) = {:?} vs builder {}", o.map(|r| r.map(|x| hex(&x))), hex(&b))),
                            }
                        }
                    }
                }
            }
            return out;
        }
        _ => return vec!["replay of this record kind re-runs the whole group; use bin/check".into()],
    }
    let r = s.finish();
    r["violations"].as_array().unwrap().iter().map(|x| format!("{}: {}", x["sig"].as_str().unwrap(), x["detail"].as_str().unwrap())).collect()
}

// ==========================================================================================
// C15

fn c15_expected_ops(i: &I, hi: Option<i32>) -> Option<Vec<Op>> {
    let k = isa::kind(i.opc)?;
    let d = i.dst as i128;
    let sr = i.src as i128;
    let o = i.off as i128;
    let m = i.imm as i128;
    Some(match k {
        Kind::LdAbs(_) => vec![Op::N(m)],
        Kind::LdInd(_) => vec![Op::R(sr), Op::N(m)],
        Kind::LdDw => {
            let v = (i.imm as u32 as u64) | ((hi.unwrap_or(0) as u32 as u64) << 32);
            vec![Op::R(d), Op::N(v as i64 as i128)]
        }
        Kind::Ldx(_) => vec![Op::R(d), Op::M(sr, o)],
        Kind::St(_) => vec![Op::M(d, o), Op::N(m)],
        Kind::Stx(_) | Kind::Xadd(_) => vec![Op::M(d, o), Op::R(sr)],
        Kind::Alu { reg, .. } => {
            if reg {
                vec![Op::R(d), Op::R(sr)]
            } else {
                vec![Op::R(d), Op::N(m)]
            }
        }
        Kind::Neg { .. } | Kind::End { .. } => vec![Op::R(d)],
        Kind::Ja => vec![Op::N(o)],
        Kind::Jcc { reg, .. } => {
            if reg {
                vec![Op::R(d), Op::R(sr), Op::N(o)]
            } else {
                vec![Op::R(d), Op::N(m), Op::N(o)]
            }
        }
        Kind::Call => vec![Op::N(m)],
        Kind::Exit => vec![],
    })
}

/// Does a printed operand denote the expected one? Immediates may be printed as the signed
/// value or as its unsigned two's complement pattern of the field's width.
fn op_matches(got: &Op, want: &Op, imm_bits: u32) -> bool {
    match (got, want) {
        (Op::R(a), Op::R(b)) => a == b,
        (Op::M(a, x), Op::M(b, y)) => a == b && x == y,
        (Op::N(a), Op::N(b)) => {
            if a == b {
                return true;
            }
            if *b < 0 {
                let modulus: i128 = 1i128 << imm_bits;
                return *a == *b + modulus;
            }
            false
        }
        _ => false,
    }
}

/// Check one disassembled entry; returns (symptom, detail) on mismatch.
thread_local! {
    /// first (name, mnemonic in the text, instruction) seen per atomic-add opcode
    static XADD_NAMES: std::cell::RefCell<std::collections::HashMap<u8, (String, String, I)>> = std::cell::RefCell::new(std::collections::HashMap::new());
}

fn c15_check_entry(e: &rbpf::disassembler::HLInsn, i: &I, hi: Option<i32>) -> Option<(String, String)> {
    let k = isa::kind(i.opc).unwrap();
    if e.opc != i.opc {
        return Some(("field-mismatch:opc".into(), format!("opc {:#x} want {:#x}", e.opc, i.opc)));
    }
    if e.dst != i.dst {
        return Some(("field-mismatch:dst".into(), format!("dst {} want {}", e.dst, i.dst)));
    }
    if e.src != i.src {
        return Some(("field-mismatch:src".into(), format!("src {} want {}", e.src, i.src)));
    }
    if e.off != i.off {
        return Some(("field-mismatch:off".into(), format!("off {} want {}", e.off, i.off)));
    }
    let want_imm: i64 = match k {
        Kind::LdDw => ((i.imm as u32 as u64) | ((hi.unwrap_or(0) as u32 as u64) << 32)) as i64,
        _ => i.imm as i64,
    };
    if e.imm != want_imm {
        return Some(("field-mismatch:imm".into(), format!("imm {} want {}", e.imm, want_imm)));
    }
    // name
    let strict_text = !matches!(k, Kind::Xadd(_)) && (!matches!(k, Kind::End { .. }) || matches!(i.imm, 16 | 32 | 64));
    let mut names = asmref::accepted_names(i);
    if let Kind::End { to_be } = k {
        names.push(if to_be { "be".into() } else { "le".into() });
    }
    if matches!(k, Kind::Call) {
        // both call kinds share opcode 0x85: "the mnemonic of that opcode" is either spelling for the
        // entry's name (the text, which must assemble to the right kind, is checked below)
        for n in ["call", "callx"] {
            if !names.iter().any(|x| x == n) {
                names.push(n.into());
            }
        }
    }
    if matches!(k, Kind::Xadd(_)) {
        // the assembler has no mnemonic for the atomic add, so the disassembler's own name is the
        // only definition: it must be one name per opcode, whatever the operand fields hold
        if e.name.is_empty() {
            return Some(("name-empty".into(), "empty name".into()));
        }
        let text_head = e.desc.split_whitespace().next().unwrap_or("").to_string();
        let first = XADD_NAMES.with(|m| m.borrow_mut().entry(i.opc).or_insert_with(|| (e.name.clone(), text_head.clone(), *i)).clone());
        if first.0 != e.name || first.1 != text_head {
            return Some(("name-depends-on-operands".into(), format!("opcode {:#x} is named {:?} (text {:?}) here and {:?} (text {:?}) for other operand values", i.opc, e.name, text_head, first.0, first.1)));
        }
    } else if strict_text && !names.iter().any(|n| *n == e.name) {
        return Some(("name-mismatch".into(), format!("name {:?} not among {:?}", e.name, names)));
    }
    // text
    let Some((tname, tops)) = asmref::parse_line(&e.desc) else {
        if strict_text {
            return Some(("text-unparsable".into(), format!("desc {:?} is not in the assembler's syntax", e.desc)));
        }
        return None;
    };
    if strict_text {
        let tnames = asmref::accepted_names(i);
        if !tnames.iter().any(|n| *n == tname) {
            return Some(("text-mnemonic-mismatch".into(), format!("desc {:?}: mnemonic not among {:?}", e.desc, tnames)));
        }
    }
    let want = c15_expected_ops(i, hi).unwrap();
    if tops.len() != want.len() {
        return Some(("text-operand-count".into(), format!("desc {:?}: {} operands, want {}", e.desc, tops.len(), want.len())));
    }
    let bits = if matches!(k, Kind::LdDw) { 64 } else { 32 };
    for (n, (g, w)) in tops.iter().zip(want.iter()).enumerate() {
        if !op_matches(g, w, bits) {
            return Some((format!("text-operand-mismatch:{}", match w { Op::R(_) => "reg", Op::N(_) => "int", Op::M(..) => "mem" }), format!("desc {:?}: operand {} is {:?}, want {:?}", e.desc, n, g, w)));
        }
    }
    None
}

fn c15_check_prog(s: &mut Sink, insns: &[I], class: &str) -> u64 {
    // insns: a flat list where lddw occupies two entries
    let bytes = isa::enc(insns);
    if rec_on() {
        rec_push(json!({"k":"dis","p":hex(&bytes)}));
        return 0;
    }
    let rp = json!({"kind":"disasm","prog":hex(&bytes)});
    let res = catch(|| rbpf::disassembler::to_insn_vec(&bytes));
    let entries = match res {
        Err(m) => {
            // attribute to the first instruction kind for the signature
            s.violation(&format!("disasm/{class}/{}", panic_class(&m)), format!("to_insn_vec panicked: {m}"), rp);
            return 1;
        }
        Ok(e) => e,
    };
    let mut k = 0usize;
    let mut n = 0usize;
    let mut checked = 0u64;
    while k < insns.len() {
        let i = &insns[k];
        let hi = if i.opc == 0x18 { Some(insns[k + 1].imm) } else { None };
        if n >= entries.len() {
            s.violation(&format!("disasm/{class}/entry-count"), format!("{} entries for a program with more instructions", entries.len()), rp.clone());
            return checked;
        }
        if let Some((sym, det)) = c15_check_entry(&entries[n], i, hi) {
            let m = isa::mnemonic(i).unwrap_or_default();
            if sym == "name-depends-on-operands" {
                // replayable as a pair: the instruction that fixed the name, then this one
                let first = XADD_NAMES.with(|mm| mm.borrow().get(&i.opc).map(|x| x.2)).unwrap_or(*i);
                s.violation(&format!("disasm/{m}/{sym}"), format!("insn {:?}: {det}", i), json!({"kind":"disasm","prog":hex(&isa::enc(&[first, *i]))}));
                checked += 1;
                n += 1;
                k += 1;
                continue;
            }
            s.violation(&format!("disasm/{m}/{sym}"), format!("insn {:?}: {det}", i), json!({"kind":"disasm","prog":hex(&isa::enc(if insns.len() <= 16 { insns } else if hi.is_some() { &insns[k..k + 2] } else { &insns[k..k + 1] }))}));
        }
        checked += 1;
        n += 1;
        k += if hi.is_some() { 2 } else { 1 };
    }
    if n != entries.len() {
        s.violation(&format!("disasm/{class}/entry-count"), format!("{} entries, want {}", entries.len(), n), rp);
    }
    checked
}

pub fn run_c15(s: &mut Sink) {
    let thorough = s.tier == Tier::Thorough;
    let offs = offs_alphabet(thorough);
    let imms = imm_alphabet();
    let ops = isa::all_supported();
    s.meta.insert("alphabet".into(), json!({
        "opcodes": ops.len(), "register_nibbles": "16 x 16 (call: kinds 0 and 1)", "offsets": offs.len(), "immediates": imms.len(),
        "lddw": "both halves from the immediate alphabet (squared), second-half unused fields zero and non-zero",
        "full_imm_range": if thorough {"all 2^32 immediates for one opcode per renderer shape"} else {"not in quick tier"},
    }));
    s.meta.insert("bound".into(), json!("1 instruction per case packed 256 per program; programs of 1-3 instructions for entry count/merging"));
    let mut g = 0u64;
    for &opc in &ops {
        let k = isa::kind(opc).unwrap();
        let idx = g;
        g += 1;
        if !s.take(idx) {
            continue;
        }
        if s.expired() {
            s.cut("opcode x nibbles x offsets x immediates");
            break;
        }
        let mut n = 0u64;
        if matches!(k, Kind::LdDw) {
            for lo in &imms {
                for hi in &imms {
                    let mut p = vec![];
                    for dst in 0..16u8 {
                        for (s2reg, s2off) in [(0u8, 0i16), (0xab, -1)] {
                            p.push(I::new(opc, dst, (dst * 7) & 15, s2off, *lo));
                            p.push(I::new(0, s2reg & 15, s2reg >> 4, s2off, *hi));
                        }
                    }
                    n += c15_check_prog(s, &p, "lddw");
                }
            }
        } else {
            let (_, _, uo, ui) = isa::uses(k);
            // offsets matter to the renderer only where printed, but the field must be reported always
            let offset_set: Vec<i16> = if uo || thorough { offs.clone() } else { O16.to_vec() };
            let imm_set: Vec<i32> = if ui { imms.clone() } else { I32S[..8].to_vec() };
            let small = offs_alphabet(false);
            for off in &offset_set {
                // thorough (all 65536 offsets): the full immediate set only at the boundary offsets
                let boundary = !thorough || small.binary_search(off).is_ok();
                for (ii, imm) in imm_set.iter().enumerate() {
                    if !boundary && ii % 29 != 0 {
                        continue;
                    }
                    let mut p = Vec::with_capacity(256);
                    for dst in 0..16u8 {
                        for src in 0..16u8 {
                            if matches!(k, Kind::Call) && src > 1 {
                                continue;
                            }
                            p.push(I::new(opc, dst, src, *off, *imm));
                        }
                    }
                    n += c15_check_prog(s, &p, &isa::mnemonic(&p[0]).unwrap());
                }
            }
        }
        s.count("evaluations", n);
        s.count("distinct_nontrivial", n);
        s.sample(&format!("{:?}", std::mem::discriminant(&k)), || json!({"bytes": hex(&I::new(opc, 9, if matches!(k, Kind::Call) {1} else {10}, -32768, i32::MIN).bytes())}));
    }
    if !s.expired() {
        s.done("opcode x nibbles x offsets x immediates");
    }
    // dense immediates: every value in -300..=300 (helper numbers, small constants) for every opcode
    for &opc in &ops {
        let k = isa::kind(opc).unwrap();
        let idx = g;
        g += 1;
        if !s.take(idx) {
            continue;
        }
        if matches!(k, Kind::LdDw) {
            continue;
        }
        let mut n = 0u64;
        for imm in -300i32..=300 {
            for off in [0i16, -5] {
                let mut p = Vec::with_capacity(256);
                for dst in 0..16u8 {
                    for src in 0..16u8 {
                        if matches!(k, Kind::Call) && src > 1 {
                            continue;
                        }
                        p.push(I::new(opc, dst, src, off, imm));
                    }
                }
                n += c15_check_prog(s, &p, &isa::mnemonic(&p[0]).unwrap());
            }
        }
        s.count("evaluations", n);
        s.count("distinct_nontrivial", n);
    }
    s.done("every immediate in -300..=300 x opcode x nibbles");
    // control-flow skeletons: every placement of jumps / local calls / wide loads in programs of
    // n slots (the slot grammar of the isa engine's layer 3), every displacement inside the program
    {
        let nmax = if thorough { 5 } else { 4 };
        for nslots in 1..=nmax {
            let firsts = crate::isaeng::slot_choices(0, nslots, true);
            for f in firsts {
                let idx = g;
                g += 1;
                if !s.take(idx) {
                    continue;
                }
                let mut n = 0u64;
                skeletons_from(nslots, f, &mut |sk| {
                    if let Some(p) = crate::isaeng::skeleton_program(sk) {
                        n += c15_check_prog(s, &p, "skeleton");
                    }
                });
                s.count("evaluations", n);
                s.count("distinct_nontrivial", n);
            }
        }
        s.done(&format!("control-flow skeletons of 1..={nmax} slots (jumps, local calls and wide loads in every relative position)"));
    }
    // twins (see C16): equal instructions and instructions differing in one field in one program
    {
        let idx = g;
        g += 1;
        if s.take(idx) {
            let mut n = 0u64;
            for &opc in &ops {
                let k = isa::kind(opc).unwrap();
                for base in twin_bases(opc, k) {
                    for other in twin_variants(&base, k) {
                        let mut p = base.clone();
                        p.extend(other.iter());
                        p.extend(base.iter());
                        n += c15_check_prog(s, &p, "twins");
                    }
                }
            }
            s.count("evaluations", n);
            s.count("distinct_nontrivial", n);
            s.done("twins: every opcode, triples of instructions equal or differing in one field");
        }
    }
    // full 2^32 immediates for one opcode per renderer shape (thorough)
    if thorough {
        let shapes: [u8; 7] = [0x07, 0x20, 0x40, 0x62, 0x15, 0x85, 0xd4];
        for &opc in &shapes {
            for top in 0..=255u32 {
                let idx = g;
                g += 1;
                if !s.take(idx) {
                    continue;
                }
                if s.expired() {
                    s.cut("all 2^32 immediates per shape");
                    break;
                }
                let mut n = 0u64;
                let mut low = 0u32;
                while low < (1 << 24) {
                    let mut p = Vec::with_capacity(4096);
                    for j in 0..4096u32 {
                        p.push(I::new(opc, 3, if opc == 0x85 { 1 } else { 4 }, -5, ((top << 24) | (low + j)) as i32));
                    }
                    n += c15_check_prog(s, &p, "imm-sweep");
                    low += 4096;
                }
                s.count("evaluations", n);
                s.count("distinct_nontrivial", n);
            }
        }
        if !s.expired() {
            s.done("all 2^32 immediates per shape");
        }
    }
    // small programs: entry count, merging, order
    let idx = g;
    if s.take(idx) {
        let atoms: Vec<Vec<I>> = vec![
            vec![isa::EXIT],
            isa::lddw(3, 0x1122334455667788).to_vec(),
            vec![isa::mov64i(1, -1)],
            vec![isa::ja(-32768)],
            isa::lddw(0, u64::MAX).to_vec(),
            vec![I::new(0x85, 0, 1, 0, -1)],
            vec![I::new(0xdb, 10, 1, -32768, 0)],
        ];
        let mut n = 0u64;
        for a in &atoms {
            n += c15_check_prog(s, a, "small");
            for b in &atoms {
                let mut p = a.clone();
                p.extend(b.iter());
                n += c15_check_prog(s, &p, "small");
                for c in &atoms {
                    let mut q = p.clone();
                    q.extend(c.iter());
                    n += c15_check_prog(s, &q, "small");
                }
            }
        }
        // empty program
        match catch(|| rbpf::disassembler::to_insn_vec(&[])) {
            Ok(v) if v.is_empty() => {}
            Ok(v) => s.violation("disasm/empty/entry-count", format!("{} entries for the empty program", v.len()), json!({"kind":"disasm","prog":""})),
            Err(m) => s.violation(&format!("disasm/empty/{}", panic_class(&m)), m, json!({"kind":"disasm","prog":""})),
        }
        s.count("evaluations", n);
        s.count("distinct_nontrivial", n);
        s.done("programs of 1-3 instructions");
    }
    let idx = g + 1;
    if s.take(idx) {
        c15_print_family(s, thorough);
    }
}

/// The printing entry point `disassemble()`: a program of `slots` slots with one wide load at slot
/// `at` (moves before, moves and a final exit after). What it prints must be the `desc` of the
/// entries of `to_insn_vec`, one per line; it must not panic.
fn c15_print_program(slots: usize, at: usize) -> Vec<I> {
    let mut p = vec![];
    while p.len() < slots {
        if p.len() == at && at + 1 < slots {
            p.extend(isa::lddw(2, 0x1122_3344_0000_0000 + at as u64));
        } else if p.len() + 1 == slots {
            p.push(isa::EXIT);
        } else {
            p.push(isa::mov64i(1, p.len() as i32));
        }
    }
    p
}

/// Runs in a forked child with fd 1 redirected to a memory file. Returns a list of failures.
fn c15_print_cases(cases: &[(usize, usize)]) -> Vec<u8> {
    use std::io::Write;
    let mut out = String::new();
    unsafe {
        let fd = libc::memfd_create(b"verif-stdout\0".as_ptr() as *const libc::c_char, 0);
        assert!(fd >= 0);
        let _ = std::io::stdout().flush();
        libc::dup2(fd, 1);
        // byte strings outside the property's domain may make the disassembler panic; whatever they
        // do, they must not spoil later calls on valid programs (a lock left poisoned, a static left
        // half-updated)
        for bad in [&[0xffu8, 0, 0, 0, 0, 0, 0, 0][..], &[0x95, 0, 0, 0, 0, 0, 0][..], &[0x85, 0x20, 0, 0, 1, 0, 0, 0][..], &[0x18, 0, 0, 0, 0, 0, 0, 0][..]] {
            let _ = catch(|| rbpf::disassembler::disassemble(bad));
            let _ = catch(|| rbpf::disassembler::to_insn_vec(bad));
        }
        let _ = std::io::stdout().flush();
        for (slots, at) in cases {
            let prog = c15_print_program(*slots, *at);
            let bytes = isa::enc(&prog);
            libc::ftruncate(fd, 0);
            libc::lseek(fd, 0, libc::SEEK_SET);
            let r = catch(|| rbpf::disassembler::disassemble(&bytes));
            let _ = std::io::stdout().flush();
            match r {
                Err(m) => {
                    out.push_str(&format!("{slots} {at} P {}\n", m.replace('\n', " ")));
                    continue;
                }
                Ok(()) => {}
            }
            let len = libc::lseek(fd, 0, libc::SEEK_END) as usize;
            let mut buf = vec![0u8; len];
            libc::pread(fd, buf.as_mut_ptr() as *mut libc::c_void, len, 0);
            let printed = String::from_utf8_lossy(&buf).to_string();
            let want: String = match catch(|| rbpf::disassembler::to_insn_vec(&bytes)) {
                Ok(v) => v.iter().map(|e| format!("{}\n", e.desc)).collect(),
                Err(_) => continue, // to_insn_vec's own failures are reported by the other families
            };
            if printed != want {
                let (pl, wl) = (printed.lines().count(), want.lines().count());
                let first = printed.lines().zip(want.lines()).position(|(a, b)| a != b);
                out.push_str(&format!("{slots} {at} D printed {pl} lines, to_insn_vec has {wl} entries; first differing line {first:?}\n"));
            }
        }
    }
    out.into_bytes()
}

/// C16 through the printing entry point: what `disassemble()` prints for a program, assembled
/// again, must be the program (sizes around the multiples of 512 slots and a few others; the wide
/// load sits at the end, so that it straddles any fixed-size block boundary for some size).
fn c16_print_roundtrip(s: &mut Sink, thorough: bool) {
    let mut sizes: Vec<usize> = vec![3, 4, 17, 100];
    for base in [512usize, 1024, 1536, 2048, 4096] {
        if base > 1100 && !thorough {
            continue;
        }
        sizes.extend(base - 4..=base + 6);
    }
    let cases: Vec<(usize, usize)> = sizes.iter().flat_map(|n| [(*n, n - 3), (*n, 0)]).collect();
    for chunk in cases.chunks(32) {
        let c2 = chunk.to_vec();
        let end = in_child(120, move || {
            use std::io::Write;
            let mut out = String::new();
            unsafe {
                let fd = libc::memfd_create(b"verif-stdout\0".as_ptr() as *const libc::c_char, 0);
                let _ = std::io::stdout().flush();
                libc::dup2(fd, 1);
                for (slots, at) in &c2 {
                    let bytes = isa::enc(&c15_print_program(*slots, *at));
                    libc::ftruncate(fd, 0);
                    libc::lseek(fd, 0, libc::SEEK_SET);
                    if let Err(m) = catch(|| rbpf::disassembler::disassemble(&bytes)) {
                        out.push_str(&format!("{slots} {at} P {}\n", m.replace('\n', " ")));
                        continue;
                    }
                    let _ = std::io::stdout().flush();
                    let len = libc::lseek(fd, 0, libc::SEEK_END) as usize;
                    let mut buf = vec![0u8; len];
                    libc::pread(fd, buf.as_mut_ptr() as *mut libc::c_void, len, 0);
                    let text = String::from_utf8_lossy(&buf).to_string();
                    match catch(|| rbpf::assembler::assemble(&text)) {
                        Ok(Ok(b)) if b == bytes => {}
                        Ok(Ok(b)) => out.push_str(&format!("{slots} {at} D assembling the printed text gives {} bytes, the program has {}\n", b.len(), bytes.len())),
                        Ok(Err(e)) => out.push_str(&format!("{slots} {at} D the printed text is refused: {}\n", e.replace('\n', " "))),
                        Err(m) => out.push_str(&format!("{slots} {at} P assemble panicked: {}\n", m.replace('\n', " "))),
                    }
                }
            }
            out.into_bytes()
        });
        s.count("evaluations", chunk.len() as u64);
        s.count("distinct_nontrivial", chunk.len() as u64);
        match end {
            ChildEnd::Ok(b) => {
                for line in String::from_utf8_lossy(&b).lines() {
                    let mut it = line.splitn(4, ' ');
                    let slots: usize = it.next().unwrap().parse().unwrap();
                    let at: usize = it.next().unwrap().parse().unwrap();
                    let kind = it.next().unwrap();
                    let rest = it.next().unwrap_or("");
                    let sig = if kind == "P" { format!("roundtrip/disassemble()/{}", panic_class(rest)) } else { "roundtrip/disassemble()/bytes-differ".to_string() };
                    s.violation(&sig, format!("{slots}-slot program with a wide load at slot {at}: {rest}"), json!({"kind":"disasm-print","slots":slots,"at":at}));
                }
            }
            ChildEnd::Signal(sig) => s.violation(&format!("roundtrip/disassemble()/crash:{}", signame(sig)), "disassemble() + assemble() died".into(), json!({"kind":"none"})),
            ChildEnd::Exit(c) => s.violation("harness/roundtrip-print/child-exit", format!("child exit {c}"), json!({"kind":"none"})),
        }
    }
    s.done("disassemble() (printed text) -> assemble() on programs of sizes around 512, 1024 (thorough: .. 4096) slots");
}

fn c15_print_family(s: &mut Sink, thorough: bool) {
    let max = if thorough { 4200 } else { 1100 };
    let mut cases: Vec<(usize, usize)> = vec![];
    for slots in 1..=max {
        // the wide load as the last instruction before exit, and (every 7th size) first
        if slots >= 3 {
            cases.push((slots, slots - 3));
        }
        if slots % 7 == 0 {
            cases.push((slots, 0));
        }
        cases.push((slots, usize::MAX)); // no wide load
    }
    for chunk in cases.chunks(400) {
        let c2 = chunk.to_vec();
        let end = in_child(120, move || c15_print_cases(&c2));
        s.count("evaluations", chunk.len() as u64);
        s.count("distinct_nontrivial", chunk.len() as u64);
        match end {
            ChildEnd::Ok(b) => {
                for line in String::from_utf8_lossy(&b).lines() {
                    let mut it = line.splitn(4, ' ');
                    let slots: usize = it.next().unwrap().parse().unwrap();
                    let at: usize = it.next().unwrap().parse().unwrap();
                    let kind = it.next().unwrap();
                    let rest = it.next().unwrap_or("");
                    let rp = json!({"kind":"disasm-print","slots":slots,"at":at});
                    if kind == "P" {
                        s.violation(&format!("disasm/disassemble()/{}", panic_class(rest)), format!("disassemble() of a {slots}-slot program with a wide load at slot {at} panicked: {rest}"), rp);
                    } else {
                        s.violation("disasm/disassemble()/output-differs-from-entries", format!("{slots}-slot program, wide load at slot {at}: {rest}"), rp);
                    }
                }
            }
            ChildEnd::Signal(sig) => s.violation(&format!("disasm/disassemble()/crash:{}", signame(sig)), format!("disassemble() died with {} in sizes {}..={}", signame(sig), chunk[0].0, chunk[chunk.len() - 1].0), json!({"kind":"none"})),
            ChildEnd::Exit(c) => s.violation("harness/disasm-print/child-exit", format!("child exit {c}"), json!({"kind":"none"})),
        }
    }
    s.done(&format!("disassemble() (the printing entry point) on programs of every size 1..={max} with a wide load at the end / at the start / absent"));
}

pub fn replay_disasm_print(v: &Value) -> Vec<String> {
    let c = vec![(v["slots"].as_u64().unwrap() as usize, v["at"].as_u64().unwrap() as usize)];
    match in_child(60, move || c15_print_cases(&c)) {
        ChildEnd::Ok(b) => String::from_utf8_lossy(&b).lines().map(|l| format!("disasm/disassemble(): {l}")).collect(),
        other => vec![format!("disasm/disassemble(): child ended with {:?}", match other { ChildEnd::Signal(s) => s, ChildEnd::Exit(c) => c, _ => 0 })],
    }
}

pub fn replay_disasm(v: &Value) -> Vec<String> {
    let bytes = unhex(v["prog"].as_str().unwrap());
    let insns = isa::dec(&bytes);
    let mut s = Sink::new("C15", Tier::Quick, 0, 1, None, None, 3600);
    c15_check_prog(&mut s, &insns, "replay");
    let r = s.finish();
    r["violations"].as_array().unwrap().iter().map(|x| format!("{}: {}", x["sig"].as_str().unwrap(), x["detail"].as_str().unwrap())).collect()
}

// ==========================================================================================
// C13

fn c13_check(s: &mut Sink, text: &str, want: &Option<Vec<u8>>, class: &str) {
    if rec_on() {
        rec_push(json!({"k":"asm","t":text}));
        return;
    }
    let got = catch(|| rbpf::assembler::assemble(text));
    let rp = || json!({"kind":"asm","text":text,"want": want.as_ref().map(|b| hex(b))});
    match (got, want) {
        (Err(m), _) => s.violation(&format!("asm/{class}/{}", panic_class(&m)), format!("assemble({text:?}) panicked: {m}"), rp()),
        (Ok(Ok(b)), Some(w)) => {
            if b != *w {
                s.violation(&format!("asm/{class}/bytes-mismatch"), format!("assemble({text:?}) = {} want {}", hex(&b), hex(w)), rp());
            }
        }
        (Ok(Ok(b)), None) => s.violation(&format!("asm/{class}/ok-instead-of-err"), format!("assemble({text:?}) = Ok({}) but the text denotes no instruction", hex(&b)), rp()),
        (Ok(Err(e)), Some(w)) => s.violation(&format!("asm/{class}/err-instead-of-ok"), format!("assemble({text:?}) = Err({e:?}) want {}", hex(w)), rp()),
        (Ok(Err(_)), None) => {}
    }
}

fn shape_class(ops: &[Op]) -> String {
    ops.iter().map(|o| match o { Op::R(_) => 'R', Op::N(_) => 'N', Op::M(..) => 'M' }).collect()
}

fn join_ops(ops: &[Op], sp: Spell, sep: &str, short: bool) -> String {
    ops.iter().map(|o| asmref::spell_op(o, sp, short)).collect::<Vec<_>>().join(sep)
}

const C13_REGS: [i128; 9] = [0, 1, 9, 10, 11, 15, 16, 17, 99];
// the last three of each: far out of range, around 2^63 and 2^64 (must be errors, not wrapped)
const C13_OFFS: [i128; 10] = [0, 1, -1, 32767, 32768, -32768, -32769, 0x7fff_ffff_ffff_ffff, 0xffff_ffff_ffff_ffff, 0xffff_ffff_ffff_fffc];
const C13_IMMS: [i128; 13] = [0, 1, -1, 0x7fff_ffff, 0x8000_0000, -0x8000_0000, -0x8000_0001, 0xffff_ffff, 0x1234, 0x7fff_ffff_ffff_ffff, 0x8000_0000_0000_0000, 0xffff_ffff_ffff_ffff, -0xffff_ffff_ffff_ffff];
const C13_IMM64: [i128; 14] = [-0x8000_0000_0000_0000, -0x7fff_ffff_ffff_ffff - 0, 0, 1, -1, 0x8000_0000, 0xffff_ffff, 0x1_0000_0000, 0x7fff_ffff_ffff_ffff, -0x7fff_ffff_ffff_ffff, 0x1122_3344_5566_7788, -0x8000_0000, 0xffff_ffff_0000_0000u64 as i128, 0x8000_0000_0000_0001u64 as i128];

/// Is this spelling of this value inside C13's claim for an operand of `bits` width?
/// A hexadecimal literal at or above 2^63 denotes a 64-bit pattern: meaningful for lddw, but for
/// a 16/32-bit field its meaning is ambiguous (value or two's complement pattern) - left to the
/// totality check (C14). A *decimal* literal always denotes its value: for a 16/32-bit field
/// anything that large is simply out of range; for lddw decimals at or above 2^63 (or below
/// -2^63) are again left to C14.
fn spell_ok_for(v: i128, sp: Spell, bits: u32) -> bool {
    let hexsp = matches!(sp, Spell::Hex | Spell::PlusHex | Spell::HexUpper | Spell::HexLead0);
    let big = v >= (1i128 << 63) || v < -(1i128 << 63);
    if !big {
        return true;
    }
    if bits == 64 {
        hexsp && v >= 0
    } else {
        !hexsp
    }
}

/// Enumerate all operand lists that match the form of `m` (over the value alphabets).
fn matching_operand_lists(m: &Mn) -> Vec<Vec<Op>> {
    let mut out = vec![];
    let regs = &C13_REGS;
    match m.form {
        Form::AluBin => {
            for d in regs {
                for sr in regs {
                    out.push(vec![Op::R(*d), Op::R(*sr)]);
                }
                for i in C13_IMMS {
                    out.push(vec![Op::R(*d), Op::N(i)]);
                }
            }
        }
        Form::AluUn | Form::Endian(_) => {
            for d in regs {
                out.push(vec![Op::R(*d)]);
            }
        }
        Form::LdImm => {
            for d in regs {
                for i in C13_IMM64 {
                    out.push(vec![Op::R(*d), Op::N(i)]);
                }
            }
        }
        Form::LdAbs | Form::Call | Form::Callx => {
            for i in C13_IMMS {
                out.push(vec![Op::N(i)]);
            }
        }
        Form::LdInd => {
            for sr in regs {
                for i in C13_IMMS {
                    out.push(vec![Op::R(*sr), Op::N(i)]);
                }
            }
        }
        Form::LdReg => {
            for d in regs {
                for sr in regs {
                    for o in C13_OFFS {
                        out.push(vec![Op::R(*d), Op::M(*sr, o)]);
                    }
                }
            }
        }
        Form::StReg => {
            for d in regs {
                for sr in regs {
                    for o in C13_OFFS {
                        out.push(vec![Op::M(*d, o), Op::R(*sr)]);
                    }
                }
            }
        }
        Form::StImm => {
            for d in regs {
                for o in C13_OFFS {
                    for i in C13_IMMS {
                        out.push(vec![Op::M(*d, o), Op::N(i)]);
                    }
                }
            }
        }
        Form::Ja => {
            for o in C13_OFFS {
                out.push(vec![Op::N(o)]);
            }
        }
        Form::Jcc => {
            for d in regs {
                for o in C13_OFFS {
                    for sr in regs {
                        out.push(vec![Op::R(*d), Op::R(*sr), Op::N(o)]);
                    }
                    for i in C13_IMMS {
                        out.push(vec![Op::R(*d), Op::N(i), Op::N(o)]);
                    }
                }
            }
        }
        Form::NoOp => out.push(vec![]),
    }
    out
}

fn all_shapes() -> Vec<Vec<Op>> {
    // every operand-kind sequence of length 0..=3, plus one of length 4, with representative values
    let reps = [Op::R(2), Op::N(5), Op::M(3, 4)];
    let mut out: Vec<Vec<Op>> = vec![vec![]];
    for a in reps {
        out.push(vec![a]);
        for b in reps {
            out.push(vec![a, b]);
            for c in reps {
                out.push(vec![a, b, c]);
            }
        }
    }
    out.push(vec![Op::R(1), Op::R(2), Op::N(3), Op::N(4)]);
    out
}

pub fn run_c13(s: &mut Sink) {
    let thorough = s.tier == Tier::Thorough;
    let mns = asmref::mnemonics();
    let shapes = all_shapes();
    s.meta.insert("alphabet".into(), json!({
        "mnemonics": mns.len(), "near_miss_names": asmref::near_misses().len(), "operand_shapes": shapes.len(),
        "registers": C13_REGS.to_vec().iter().map(|x| *x as i64).collect::<Vec<_>>(),
        "offsets": C13_OFFS.to_vec().iter().map(|x| *x as i64).collect::<Vec<_>>(),
        "immediates": C13_IMMS.to_vec().iter().map(|x| *x as i64).collect::<Vec<_>>(),
        "lddw_immediates": C13_IMM64.len(),
        "spellings": "dec, +dec, -dec, 0x, +0x, -0x, upper-case hex digits, leading zeros; [rN] / [rN+0]; ', ' / ','; leading/trailing whitespace",
        "sequences": if thorough {"all ordered pairs of mnemonics; triples over 12 mnemonics"} else {"all ordered pairs of mnemonics; triples over 6 mnemonics"},
    }));
    s.meta.insert("bound".into(), json!("1 instruction (all), 2 instructions (all mnemonic pairs), 3 instructions (reduced)"));
    let mut g = 0u64;
    for m in &mns {
        let idx = g;
        g += 1;
        if !s.take(idx) {
            continue;
        }
        if s.expired() {
            s.cut("mnemonic x operands x spellings");
            break;
        }
        let mut n = 0u64;
        let mut nontriv = 0u64;
        // (1) matching shapes over the value alphabets and spellings
        for ops in matching_operand_lists(m) {
            let want = asmref::encode(m, &ops).map(|v| isa::enc(&v));
            let any_neg_or_big = ops.iter().any(|o| match o { Op::N(v) => *v < 0, Op::M(_, v) => *v < 0, _ => false });
            let has_num = ops.iter().any(|o| matches!(o, Op::N(_) | Op::M(..)));
            let spells: &[Spell] = if !has_num { &[Spell::Dec] } else if thorough || !any_neg_or_big { &asmref::SPELLS_POS } else { &asmref::SPELLS_POS[..4] };
            for sp in spells {
                let bits = if m.form == Form::LdImm { 64 } else { 32 };
                if !ops.iter().all(|o| match o { Op::N(v) => spell_ok_for(*v, *sp, bits), Op::M(_, v) => spell_ok_for(*v, *sp, 32), _ => true }) {
                    continue;
                }
                for (sep, short, lead, trail) in [(", ", false, "", ""), (",", true, "  ", " \n"), (",  ", false, "\n\t", "")] {
                    let text = format!("{lead}{} {}{trail}", m.name, join_ops(&ops, *sp, sep, short));
                    let text = if ops.is_empty() { format!("{lead}{}{trail}", m.name) } else { text };
                    c13_check(s, &text, &want, &format!("{}:{}", m.name, shape_class(&ops)));
                    n += 1;
                    if want.is_some() {
                        nontriv += 1;
                    }
                }
            }
        }
        // (2) every shape (wrong ones must be refused)
        for ops in &shapes {
            let want = asmref::encode(m, ops).map(|v| isa::enc(&v));
            let text = if ops.is_empty() { m.name.clone() } else { format!("{} {}", m.name, join_ops(ops, Spell::Dec, ", ", false)) };
            c13_check(s, &text, &want, &format!("{}:{}", m.name, shape_class(ops)));
            n += 1;
        }
        s.count("evaluations", n);
        s.count("distinct_nontrivial", nontriv);
        s.sample(&format!("{:?}", std::mem::discriminant(&m.form)), || {
            let ops = matching_operand_lists(m).into_iter().last().unwrap_or_default();
            json!({"text": format!("{} {}", m.name, join_ops(&ops, Spell::Hex, ", ", false)), "expected": asmref::encode(m, &ops).map(|v| hex(&isa::enc(&v)))})
        });
    }
    // near-miss names
    let idx = g;
    g += 1;
    if s.take(idx) {
        let mut n = 0;
        for nm in asmref::near_misses() {
            for ops in &shapes {
                let text = if ops.is_empty() { nm.to_string() } else { format!("{} {}", nm, join_ops(ops, Spell::Dec, ", ", false)) };
                c13_check(s, &text, &None, "unknown-mnemonic");
                n += 1;
            }
        }
        s.count("evaluations", n);
    }
    if !s.expired() {
        s.done("mnemonic x operands x spellings; all shapes; near-miss names");
    }
    // (3) sequences: order preserved, every ordered pair of mnemonics
    let inst = |m: &Mn| -> (String, Vec<u8>) {
        let ops: Vec<Op> = match m.form {
            Form::AluBin => vec![Op::R(1), Op::R(2)],
            Form::AluUn | Form::Endian(_) => vec![Op::R(3)],
            Form::LdImm => vec![Op::R(4), Op::N(0x1122334455667788)],
            Form::LdAbs | Form::Call | Form::Callx => vec![Op::N(7)],
            Form::LdInd => vec![Op::R(5), Op::N(8)],
            Form::LdReg => vec![Op::R(6), Op::M(7, -4)],
            Form::StReg => vec![Op::M(8, 12), Op::R(9)],
            Form::StImm => vec![Op::M(10, 0), Op::N(-9)],
            Form::Ja => vec![Op::N(3)],
            Form::Jcc => vec![Op::R(1), Op::N(2), Op::N(-3)],
            Form::NoOp => vec![],
        };
        let text = if ops.is_empty() { m.name.clone() } else { format!("{} {}", m.name, join_ops(&ops, Spell::Dec, ", ", false)) };
        (text, isa::enc(&asmref::encode(m, &ops).unwrap()))
    };
    for (ai, a) in mns.iter().enumerate() {
        let idx = g;
        g += 1;
        if !s.take(idx) {
            continue;
        }
        if s.expired() {
            s.cut("pairs of instructions");
            break;
        }
        let (ta, ba) = inst(a);
        let mut n = 0u64;
        for b in &mns {
            let (tb, bb) = inst(b);
            let mut want = ba.clone();
            want.extend(&bb);
            c13_check(s, &format!("{ta}\n{tb}"), &Some(want), &format!("seq:{}-then-{}", a.name, b.name));
            n += 1;
        }
        // triples over a reduced set
        let red: Vec<&Mn> = mns.iter().filter(|m| ["exit", "rsh", "lddw", "ja", "stxw", "jeq", "neg32", "call", "be16", "ldabsb", "mov", "rsh32"].contains(&m.name.as_str())).take(if thorough { 12 } else { 6 }).collect();
        if red.iter().any(|m| m.name == a.name) || ai % 16 == 0 {
            for b in &red {
                for c in &red {
                    let (tb, bb) = inst(b);
                    let (tc, bc) = inst(c);
                    let mut want = ba.clone();
                    want.extend(&bb);
                    want.extend(&bc);
                    c13_check(s, &format!("{ta}\n{tb}\n{tc}"), &Some(want), &format!("seq3:{}-{}-{}", a.name, b.name, c.name));
                    n += 1;
                }
            }
        }
        s.count("evaluations", n);
        s.count("distinct_nontrivial", n);
    }
    // (3b) after a refused source: a source whose first instructions are fine and whose k-th is not is
    // refused; the next source on the same thread must assemble exactly as if nothing had happened
    {
        let idx = g;
        g += 1;
        if s.take(idx) {
            let bad_tails = ["nosuchinsn r1", "mov r1", "mov r16, 1", "mov r1, 4294967296", "ldxw r1, [r2+32768]", "jeq r1, 2", "call", "lddw r1", "exit 1", "stw [r1+0]", "xadddw [r1+0], r2, 3"];
            let good_heads = ["mov r6, 1", "lddw r7, 0x1122334455667788", "ja +1", "exit", "stxdw [r10-8], r1\nadd r2, r3"];
            let mut n = 0u64;
            for head in good_heads {
                for tail in bad_tails {
                    for m in &mns {
                        let refused = format!("{head}\n{tail}");
                        let r = catch(|| rbpf::assembler::assemble(&refused));
                        if !matches!(r, Ok(Err(_))) {
                            s.violation("asm/after-refused-source/ok-instead-of-err", format!("assemble({refused:?}) = {:?}", r.map(|x| x.map(|b| hex(&b)))), json!({"kind":"asm","text":refused,"want":null}));
                            break;
                        }
                        let (t, b) = inst(m);
                        n += 1;
                        match catch(|| rbpf::assembler::assemble(&t)) {
                            Ok(Ok(got)) if got == b => {}
                            other => {
                                s.violation("asm/after-refused-source/bytes-mismatch", format!("after assemble({refused:?}) was refused, assemble({t:?}) = {:?} want {}", other.map(|x| x.map(|b| hex(&b))), hex(&b)), json!({"kind":"asm-after","refused":refused,"text":t,"want":hex(&b)}));
                            }
                        }
                    }
                }
            }
            s.count("evaluations", n);
            s.count("distinct_nontrivial", n);
            s.done("every mnemonic right after a refused multi-instruction source (5 heads x 11 faulty tails)");
        }
    }
    if !s.expired() {
        s.done("sequences of 2 (all mnemonic pairs) and 3 (reduced) instructions");
    }
    // (4) whitespace: every gap where the syntax allows blanks (before the first instruction, after
    // the mnemonic, after each comma, after the operand list / between instructions) x every blank
    // string of the alphabet, for one instruction per operand form followed by `exit`
    {
        const WS: [&str; 8] = ["", " ", "\t", "\n", "\r\n", "\r", "  ", " \t\n"];
        let mut seen_forms = std::collections::HashSet::new();
        for m in &mns {
            let idx = g;
            g += 1;
            // one mnemonic per form (decided identically in every shard)
            if !seen_forms.insert(std::mem::discriminant(&m.form)) && !(thorough && m.name.len() % 3 == 0) {
                continue;
            }
            if !s.take(idx) {
                continue;
            }
            let ops: Vec<Op> = match m.form {
                Form::AluBin => vec![Op::R(1), Op::N(-2)],
                Form::AluUn | Form::Endian(_) => vec![Op::R(3)],
                Form::LdImm => vec![Op::R(4), Op::N(0x1122334455667788)],
                Form::LdAbs | Form::Call | Form::Callx => vec![Op::N(7)],
                Form::LdInd => vec![Op::R(5), Op::N(8)],
                Form::LdReg => vec![Op::R(6), Op::M(7, -4)],
                Form::StReg => vec![Op::M(8, 12), Op::R(9)],
                Form::StImm => vec![Op::M(10, 0), Op::N(-9)],
                Form::Ja => vec![Op::N(3)],
                Form::Jcc => vec![Op::R(1), Op::N(2), Op::N(-3)],
                Form::NoOp => vec![],
            };
            let Some(enc) = asmref::encode(m, &ops) else { continue };
            let mut want = isa::enc(&enc);
            want.extend(isa::enc(&[isa::EXIT]));
            let opstrs: Vec<String> = ops.iter().map(|o| join_ops(std::slice::from_ref(o), Spell::Dec, ", ", false)).collect();
            let ngaps = 2 + ops.len().max(1); // lead, after-mnemonic, after each comma (ops-1), trailing
            let mut n = 0u64;
            let mut choice = vec![0usize; ngaps];
            'outer: loop {
                // build the text
                let lead = WS[choice[0]];
                let after_mn = WS[choice[1]];
                let trail = WS[choice[ngaps - 1]];
                // a blank is required between the mnemonic and an operand that starts with a letter
                // or digit, and between the last operand (or a bare mnemonic) and the next mnemonic
                let needs_sep_mn = !ops.is_empty() && opstrs[0].chars().next().map_or(false, |c| c.is_alphanumeric());
                if !((needs_sep_mn && after_mn.is_empty()) || trail.is_empty() || (ops.is_empty() && choice[1] != 0)) {
                    let mut text = String::new();
                    text.push_str(lead);
                    text.push_str(&m.name);
                    text.push_str(after_mn);
                    for (k, o) in opstrs.iter().enumerate() {
                        if k > 0 {
                            text.push(',');
                            text.push_str(WS[choice[1 + k]]);
                        }
                        text.push_str(o);
                    }
                    text.push_str(trail);
                    text.push_str("exit");
                    // the documented syntax: one instruction per line (LF or CR LF), blanks (space, tab)
                    // after the mnemonic, optional blanks after a comma, blank lines anywhere. Anything
                    // else the parser happens to tolerate today (an instruction continued on the next
                    // line, two instructions on one line, a lone CR) may be refused - but if it is
                    // accepted the bytes must be the denoted ones
                    let same_line = |w: &str| !w.contains('\n') && !w.contains('\r');
                    let documented = lead != "\r"
                        && (ops.is_empty() || (!after_mn.is_empty() && same_line(after_mn)))
                        && (1..ops.len()).all(|k| same_line(WS[choice[1 + k]]))
                        && trail.contains('\n');
                    if documented {
                        c13_check(s, &text, &Some(want.clone()), &format!("whitespace:{}", m.name));
                    } else {
                        match catch(|| rbpf::assembler::assemble(&text)) {
                            Ok(Ok(b)) if b == want => s.outcome("tolerated-layout-accepted", 1),
                            Ok(Err(_)) => s.outcome("tolerated-layout-refused", 1),
                            Ok(Ok(b)) => s.violation(&format!("asm/whitespace:{}/bytes-mismatch", m.name), format!("assemble({text:?}) = {} want {} (or an error)", hex(&b), hex(&want)), json!({"kind":"asm-lenient","text":text,"want":hex(&want)})),
                            Err(m2) => s.violation(&format!("asm/whitespace:{}/{}", m.name, panic_class(&m2)), format!("assemble({text:?}) panicked: {m2}"), json!({"kind":"asm-lenient","text":text,"want":hex(&want)})),
                        }
                    }
                    n += 1;
                }
                // next choice vector
                let mut k = 0;
                loop {
                    choice[k] += 1;
                    if choice[k] < WS.len() {
                        break;
                    }
                    choice[k] = 0;
                    k += 1;
                    if k == ngaps {
                        break 'outer;
                    }
                }
            }
            s.count("evaluations", n);
            s.count("distinct_nontrivial", n);
        }
        s.done("whitespace: every gap x 8 blank strings (space, tab, LF, CR LF, CR, runs) for one instruction per operand form");
    }
    // (5) whole programs: every control-flow skeleton (jumps, local calls, wide loads in every
    // relative position) of up to 4 (5) slots, written out by the harness's own renderer
    {
        let nmax = if thorough { 5 } else { 4 };
        for nslots in 1..=nmax {
            for f in crate::isaeng::slot_choices(0, nslots, true) {
                let idx = g;
                g += 1;
                if !s.take(idx) {
                    continue;
                }
                let mut n = 0u64;
                skeletons_from(nslots, f, &mut |sk| {
                    let Some(p) = crate::isaeng::skeleton_program(sk) else { return };
                    let mut lines = vec![];
                    let mut k = 0;
                    while k < p.len() {
                        let hi = if p[k].opc == 0x18 { Some(p[k + 1].imm) } else { None };
                        match asmref::render(&p[k], hi) {
                            Some(t) => lines.push(t),
                            None => return,
                        }
                        k += if hi.is_some() { 2 } else { 1 };
                    }
                    c13_check(s, &lines.join("\n"), &Some(isa::enc(&p)), "skeleton");
                    n += 1;
                });
                s.count("evaluations", n);
                s.count("distinct_nontrivial", n);
            }
        }
        s.done(&format!("programs: control-flow skeletons of 1..={nmax} slots"));
    }
    // empty source
    if s.take(g) {
        c13_check(s, "", &Some(vec![]), "empty");
        c13_check(s, "  \n ", &Some(vec![]), "empty");
        s.count("evaluations", 2);
    }
}

pub fn replay_asm_lenient(v: &Value) -> Vec<String> {
    let text = v["text"].as_str().unwrap();
    let want = unhex(v["want"].as_str().unwrap());
    match catch(|| rbpf::assembler::assemble(text)) {
        Ok(Ok(b)) if b == want => vec![],
        Ok(Err(_)) => vec![],
        Ok(Ok(b)) => vec![format!("asm/whitespace/bytes-mismatch: assemble({text:?}) = {} want {} (or an error)", hex(&b), hex(&want))],
        Err(m) => vec![format!("asm/whitespace/panic: assemble({text:?}) panicked: {m}")],
    }
}

pub fn replay_asm_after(v: &Value) -> Vec<String> {
    let refused = v["refused"].as_str().unwrap();
    let text = v["text"].as_str().unwrap();
    let want = unhex(v["want"].as_str().unwrap());
    let _ = catch(|| rbpf::assembler::assemble(refused));
    match catch(|| rbpf::assembler::assemble(text)) {
        Ok(Ok(got)) if got == want => vec![],
        other => vec![format!("asm/after-refused-source/bytes-mismatch: after assemble({refused:?}) was refused, assemble({text:?}) = {:?} want {}", other.map(|x| x.map(|b| hex(&b))), hex(&want))],
    }
}

pub fn replay_asm(v: &Value) -> Vec<String> {
    let text = v["text"].as_str().unwrap();
    let want = v["want"].as_str().map(unhex);
    let mut s = Sink::new("C13", Tier::Quick, 0, 1, None, None, 3600);
    c13_check(&mut s, text, &want, "replay");
    let r = s.finish();
    r["violations"].as_array().unwrap().iter().map(|x| format!("{}: {}", x["sig"].as_str().unwrap(), x["detail"].as_str().unwrap())).collect()
}

// ==========================================================================================
// C14

/// Classify a text by the most extreme literal it contains (the case-class of a C14 signature).
fn c14_text_class(text: &str) -> &'static str {
    let b = text.as_bytes();
    let mut worst = "plain";
    let mut i = 0;
    while i < b.len() {
        if b[i] == b'0' && i + 1 < b.len() && b[i + 1] == b'x' {
            let mut j = i + 2;
            while j < b.len() && b[j].is_ascii_hexdigit() {
                j += 1;
            }
            let n = j - (i + 2);
            let neg = i > 0 && b[i - 1] == b'-';
            if n > 16 {
                return "hex-literal-over-64-bits";
            }
            if n == 16 && neg && b[i + 2] >= b'8' {
                worst = "negated-hex-literal-at-or-over-2^63";
            }
            i = j.max(i + 2);
            continue;
        }
        if b[i].is_ascii_digit() {
            let mut j = i;
            while j < b.len() && b[j].is_ascii_digit() {
                j += 1;
            }
            let run = &text[i..j];
            let over = run.trim_start_matches('0').len() > 19 || run.parse::<i64>().is_err();
            if over {
                return if i > 0 && b[i - 1] == b'r' { "register-number-over-i64" } else { "decimal-literal-over-i64" };
            }
            i = j;
            continue;
        }
        i += 1;
    }
    worst
}

fn c14_check(s: &mut Sink, text: &str, _class: &str) {
    if rec_on() {
        rec_push(json!({"k":"asm","t":text}));
        return;
    }
    let class = c14_text_class(text);
    let t0 = std::time::Instant::now();
    let got = catch(|| rbpf::assembler::assemble(text));
    let dt = t0.elapsed();
    match got {
        Err(m) => s.violation(&format!("asm-total/{class}/{}", panic_class(&m)), format!("assemble({text:?}) panicked: {m}"), json!({"kind":"asm-total","text":text})),
        Ok(Ok(_)) => s.outcome("ok", 1),
        Ok(Err(_)) => s.outcome("err", 1),
    }
    if dt.as_secs_f64() > 2.0 {
        s.violation(&format!("asm-total/{class}/slow"), format!("assemble({text:?}) took {:?}", dt), json!({"kind":"asm-total","text":text}));
    }
}

// 'é' is alphanumeric for the parser (2 bytes in UTF-8), '€' is not (3 bytes)
const C14_CHARS: [char; 16] = ['a', 'r', 'x', '0', '1', '9', 'f', '+', '-', ',', '[', ']', ' ', '\n', 'é', '€'];

fn c14_tokens() -> Vec<(String, &'static str)> {
    let mut t: Vec<(String, &'static str)> = vec![];
    for m in ["exit", "add", "lddw", "ldxw", "stw", "ja", "jeq", "call", "neg", "be16"] {
        t.push((m.to_string(), "mnemonic"));
    }
    for n in [1usize, 2, 19, 20, 40] {
        t.push((format!("r{}", "9".repeat(n)), "reg-literal"));
    }
    t.push(("9223372036854775807".into(), "dec-literal"));
    t.push(("9223372036854775808".into(), "dec-literal"));
    t.push(("18446744073709551616".into(), "dec-literal"));
    t.push(("7".into(), "dec-literal"));
    t.push(("9".repeat(40), "dec-literal"));
    for n in [1usize, 15, 16, 17, 40] {
        t.push((format!("0x{}", "f".repeat(n)), "hex-literal"));
    }
    t.push(("0x8000000000000000".into(), "hex-literal"));
    t.push(("0x".into(), "hex-literal"));
    for p in ["+", "-", ",", ", ", "[", "]", " ", "\n"] {
        t.push((p.to_string(), "punct"));
    }
    // long identifiers, with multi-byte characters at and around "round" byte offsets
    for n in [15usize, 31, 32, 63, 255] {
        t.push((format!("{}é{}", "a".repeat(n), "b".repeat(40)), "long-ident"));
    }
    t.push(("é".repeat(40), "long-ident"));
    t.push((format!("add{}", "€"), "non-ascii"));
    t
}

pub fn run_c14(s: &mut Sink) {
    let thorough = s.tier == Tier::Thorough;
    let maxlen = if thorough { 6 } else { 5 };
    let maxtok = if thorough { 5 } else { 4 };
    let toks = c14_tokens();
    s.meta.insert("alphabet".into(), json!({"characters": C14_CHARS.iter().collect::<String>(), "tokens": toks.iter().map(|t| if t.0.len() > 48 { format!("{}...({} bytes)", t.0.chars().take(20).collect::<String>(), t.0.len()) } else { t.0.clone() }).collect::<Vec<_>>()}));
    s.meta.insert("bound".into(), json!({"max_chars": maxlen, "max_tokens": maxtok}));
    // (i) all strings up to maxlen; group = first two characters
    let na = C14_CHARS.len();
    let mut g = 0u64;
    for a in 0..na {
        for b in 0..na {
            let idx = g;
            g += 1;
            if !s.take(idx) {
                continue;
            }
            if s.expired() {
                s.cut("all strings over the character alphabet");
                break;
            }
            let mut n = 0u64;
            let prefix: String = [C14_CHARS[a], C14_CHARS[b]].iter().collect();
            if b == 0 {
                // lengths 0 and 1 once per first char
                if a == 0 {
                    c14_check(s, "", "chars");
                    n += 1;
                }
                c14_check(s, &C14_CHARS[a].to_string(), "chars");
                n += 1;
            }
            c14_check(s, &prefix, "chars");
            n += 1;
            // suffixes of length 1..=maxlen-2
            let mut stack: Vec<String> = vec![prefix.clone()];
            for _ in 0..(maxlen - 2) {
                let mut next = Vec::with_capacity(stack.len() * na);
                for p in &stack {
                    for c in C14_CHARS {
                        let mut t = p.clone();
                        t.push(c);
                        c14_check(s, &t, "chars");
                        n += 1;
                        next.push(t);
                    }
                }
                stack = next;
            }
            s.count("evaluations", n);
            s.count("distinct_nontrivial", n);
        }
    }
    if !s.expired() {
        s.done("all strings over the character alphabet");
    }
    s.sample("chars", || json!({"text": "r9[-,"}));
    // (ii) token sequences; group = first two tokens
    let nt = toks.len();
    for a in 0..nt {
        for b in 0..nt {
            let idx = g;
            g += 1;
            if !s.take(idx) {
                continue;
            }
            if s.expired() {
                s.cut("token sequences");
                break;
            }
            let mut n = 0u64;
            let class = format!("tokens:{}+{}", toks[a].1, toks[b].1);
            if b == 0 {
                c14_check(s, &toks[a].0, &format!("tokens:{}", toks[a].1));
                c14_check(s, &format!("add r1, {}", toks[a].0), &format!("tokens:operand-{}", toks[a].1));
                c14_check(s, &format!("ldxw r1, [r2+{}]", toks[a].0), &format!("tokens:memoff-{}", toks[a].1));
                c14_check(s, &format!("ldxw r1, [{}]", toks[a].0), &format!("tokens:membase-{}", toks[a].1));
                c14_check(s, &format!("lddw r1, -{}", toks[a].0), &format!("tokens:neg-operand-{}", toks[a].1));
                c14_check(s, &format!("ja +{}", toks[a].0), &format!("tokens:plus-operand-{}", toks[a].1));
                n += 6;
                // every signed position
                for tmpl in ["ldxw r1, [r2-{}]", "ldxw r1, [r2 - {}]", "ldxw r1, [r2 + {}]", "stw [r1-{}], 1", "stxdw [r1+{}], r2", "stw [r1+4], -{}", "lddw r1, +{}", "ja -{}", "jeq r1, -{}, +1", "jeq r1, 1, -{}", "call -{}", "mov32 r1, -{}", "ldabsw -{}", "ldindw r1, -{}", "be16 r{}", "exit {}", "-{}", "+{}"] {
                    c14_check(s, &tmpl.replace("{}", &toks[a].0), &format!("tokens:signed-position-{}", toks[a].1));
                    n += 1;
                }
                // operand lists of every length 0..=12 made of this token, after each mnemonic kind
                for mn in ["add", "exit", "call", "lddw", "ldxw", "jeq", "nosuchinsn"] {
                    for k in 0..=12usize {
                        for sep in [", ", ","] {
                            let ops: Vec<&str> = std::iter::repeat(toks[a].0.as_str()).take(k).collect();
                            c14_check(s, &format!("{mn} {}", ops.join(sep)), &format!("tokens:{k}-operands-{}", toks[a].1));
                            n += 1;
                        }
                    }
                }
            }
            let prefix = format!("{}{}", toks[a].0, toks[b].0);
            c14_check(s, &prefix, &class);
            n += 1;
            let mut stack = vec![prefix];
            for _ in 0..(maxtok - 2) {
                let mut next = Vec::with_capacity(stack.len() * nt);
                for p in &stack {
                    for t in &toks {
                        let x = format!("{p}{}", t.0);
                        c14_check(s, &x, &class);
                        n += 1;
                        next.push(x);
                    }
                }
                stack = next;
            }
            s.count("evaluations", n);
            s.count("distinct_nontrivial", n);
        }
    }
    if !s.expired() {
        s.done("token sequences");
    }
    s.sample("tokens", || json!({"text": "lddw r1, -0x8000000000000000"}));
    // (iii) every character of a wide alphabet inserted at every position of base texts: one
    // insertion (all characters) and two insertions (all characters x the punctuation / non-ASCII
    // subset; thorough: all x all)
    let mut wide: Vec<char> = (0u8..128).map(|b| b as char).collect();
    wide.extend(['\u{a0}', '\u{e9}', '\u{3b1}', '\u{20ac}', '\u{3000}', '\u{301}', '\u{1f600}', '\u{feff}', '\u{2028}']);
    let sub: Vec<char> = wide.iter().copied().filter(|c| !c.is_ascii_alphanumeric() && !c.is_ascii_control() || *c == '\n' || *c == '\t' || *c == '\r' || *c == '0' || *c == 'r' || *c == 'x').collect();
    let bases = ["mov r0, 1\nexit", "ldxw r1, [r2+4]", "lddw r3, -0x10", "jeq r1, 2, +3", "exit"];
    for (bi, base) in bases.iter().enumerate() {
        let chars: Vec<char> = base.chars().collect();
        for pos in 0..=chars.len() {
            let idx = g;
            g += 1;
            if !s.take(idx) {
                continue;
            }
            if s.expired() {
                s.cut("insertions");
                break;
            }
            let mut n = 0u64;
            let class = format!("insert:base{bi}");
            for c1 in &wide {
                let mut t1: Vec<char> = chars.clone();
                t1.insert(pos, *c1);
                let text: String = t1.iter().collect();
                c14_check(s, &text, &class);
                n += 1;
                let second: &Vec<char> = if thorough { &wide } else { &sub };
                if !thorough && !sub.contains(c1) {
                    continue;
                }
                for pos2 in (pos + 1)..=t1.len() {
                    for c2 in second {
                        let mut t2 = t1.clone();
                        t2.insert(pos2, *c2);
                        let text: String = t2.iter().collect();
                        c14_check(s, &text, &class);
                        n += 1;
                    }
                }
            }
            s.count("evaluations", n);
            s.count("distinct_nontrivial", n);
        }
    }
    if !s.expired() {
        s.done("one and two character insertions (128 ASCII + 9 non-ASCII characters) at every position of 5 base texts");
    }
    // (iv) whole programs: every sequence of 1..=3 (thorough 4) instructions over wide loads, moves,
    // exit and jumps / calls with every displacement -4..=4 - targets inside the program, on the second
    // half of a wide load, one past the end, far outside
    let mut insns: Vec<String> = vec!["lddw r1, 0x1122334455667788".into(), "exit".into(), "mov r0, 1".into()];
    for k in -4i32..=4 {
        insns.push(format!("ja {k:+}"));
        insns.push(format!("jeq r0, 1, {k:+}"));
        insns.push(format!("call {k}"));
    }
    let depth = if thorough { 4 } else { 3 };
    for a in 0..insns.len() {
        let idx = g;
        g += 1;
        if !s.take(idx) {
            continue;
        }
        let mut n = 0u64;
        let mut stack = vec![insns[a].clone()];
        c14_check(s, &insns[a], "programs");
        n += 1;
        for _ in 1..depth {
            let mut next = Vec::with_capacity(stack.len() * insns.len());
            for p in &stack {
                for i in &insns {
                    let t = format!("{p}\n{i}");
                    c14_check(s, &t, "programs");
                    n += 1;
                    next.push(t);
                }
            }
            stack = next;
        }
        s.count("evaluations", n);
        s.count("distinct_nontrivial", n);
    }
    s.done("programs of 1..=3 instructions with jumps and calls of every displacement -4..=4");
}

pub fn replay_asm_total(v: &Value) -> Vec<String> {
    let text = v["text"].as_str().unwrap();
    let mut s = Sink::new("C14", Tier::Quick, 0, 1, None, None, 3600);
    c14_check(&mut s, text, "replay");
    let r = s.finish();
    r["violations"].as_array().unwrap().iter().map(|x| format!("{}: {}", x["sig"].as_str().unwrap(), x["detail"].as_str().unwrap())).collect()
}

// ==========================================================================================
// C16

fn canonical(p: &[I]) -> Vec<I> {
    let mut out = vec![];
    let mut k = 0;
    while k < p.len() {
        let i = p[k];
        let kd = isa::kind(i.opc).unwrap();
        let (ud, us, uo, ui) = isa::uses(kd);
        out.push(I::new(i.opc, if ud { i.dst } else { 0 }, if us { i.src } else { 0 }, if uo { i.off } else { 0 }, if ui { i.imm } else { 0 }));
        if matches!(kd, Kind::LdDw) {
            out.push(I::new(0, 0, 0, 0, p[k + 1].imm));
            k += 1;
        }
        k += 1;
    }
    out
}

fn is_clause1(p: &[I]) -> bool {
    // expressible, unused fields zero, non-negative 32-bit immediates (lddw: anything)
    let c = canonical(p);
    if c != p {
        return false;
    }
    let mut k = 0;
    while k < p.len() {
        let kd = isa::kind(p[k].opc).unwrap();
        if !isa::assembler_expressible(&p[k]) {
            return false;
        }
        if matches!(kd, Kind::LdDw) {
            k += 2;
            continue;
        }
        let (_, _, _, ui) = isa::uses(kd);
        if ui && p[k].imm < 0 {
            return false;
        }
        k += 1;
    }
    true
}

fn c16_check(s: &mut Sink, p: &[I], class: &str) {
    c16_check_x(s, p, class, false)
}

/// `junk_second_half`: the slot after a wide load carries a non-zero opcode byte. Such a string is not
/// "made of whole instructions" (C15 says nothing about disassembling it), so a refusal or panic of
/// the disassembler is not C16's business; but if text comes out and the assembler accepts it, the
/// result must be the canonical form (the slot is the wide load's second half: only its immediate counts).
fn c16_check_x(s: &mut Sink, p: &[I], class: &str, junk_second_half: bool) {
    let bytes = isa::enc(p);
    let rp = json!({"kind":"roundtrip","prog":hex(&bytes),"junk_second_half":junk_second_half});
    let text = match catch(|| rbpf::disassembler::to_insn_vec(&bytes).iter().map(|e| e.desc.clone()).collect::<Vec<_>>().join("\n")) {
        Ok(t) => t,
        Err(_) if junk_second_half => {
            s.outcome("clause2-disassembler-refused", 1);
            return;
        }
        Err(m) => {
            s.violation(&format!("roundtrip/{class}/disasm-{}", panic_class(&m)), format!("disassembly of {} panicked: {m}", hex(&bytes)), rp);
            return;
        }
    };
    let back = catch(|| rbpf::assembler::assemble(&text));
    let first = is_clause1(p);
    match back {
        Err(m) => s.violation(&format!("roundtrip/{class}/asm-{}", panic_class(&m)), format!("assemble({text:?}) panicked: {m}"), rp),
        Ok(Ok(q)) => {
            if first {
                s.outcome("clause1-ok", 1);
                if q != bytes {
                    s.violation(&format!("roundtrip/{class}/bytes-differ"), format!("{} -> {text:?} -> {}", hex(&bytes), hex(&q)), rp);
                }
            } else {
                s.outcome("clause2-accepted", 1);
                let c = isa::enc(&canonical(p));
                if q != c {
                    s.violation(&format!("roundtrip/{class}/not-canonical"), format!("{} -> {text:?} -> {} but canonical form is {}", hex(&bytes), hex(&q), hex(&c)), rp);
                }
            }
        }
        Ok(Err(e)) => {
            if first {
                s.violation(&format!("roundtrip/{class}/rejected"), format!("{} -> {text:?} -> Err({e:?})", hex(&bytes)), rp);
            } else {
                s.outcome("clause2-rejected", 1);
            }
        }
    }
}

pub fn run_c16(s: &mut Sink) {
    let thorough = s.tier == Tier::Thorough;
    let ops: Vec<u8> = isa::all_supported().into_iter().filter(|o| !matches!(isa::kind(*o), Some(Kind::Xadd(_)))).collect();
    let offs_small = offs_alphabet(false);
    let imms = imm_alphabet();
    s.meta.insert("alphabet".into(), json!({"opcodes": ops.len(), "registers": "0..15 in used fields (clause 1); all 16x16 nibbles (clause 2)", "offsets": if thorough {"all 65536 for every opcode that uses the field"} else {"all 65536 for one opcode per shape, boundary set otherwise"}, "immediates": imms.len(), "lddw": "halves from the immediate alphabet squared"}));
    s.meta.insert("bound".into(), json!("programs of 1 instruction (all), 2 and 3 instructions (reduced set)"));
    let mut g = 0u64;
    let mut full_off_done = std::collections::HashSet::new();
    for &opc in &ops {
        let k = isa::kind(opc).unwrap();
        let idx = g;
        g += 1;
        // decide the offset set deterministically for every shard (before take)
        let (ud, us, uo, ui) = isa::uses(k);
        let shape = (ud, us, uo, ui, matches!(k, Kind::Ja));
        let full_off = uo && (thorough || full_off_done.insert(shape));
        if !s.take(idx) {
            continue;
        }
        if s.expired() {
            s.cut("single instructions");
            break;
        }
        let mut n = 0u64;
        let class = isa::mnemonic(&I::new(opc, 0, 0, 0, 16)).unwrap();
        if matches!(k, Kind::LdDw) {
            for lo in &imms {
                for hi in &imms {
                    for dst in 0..16u8 {
                        c16_check(s, &[I::new(opc, dst, 0, 0, *lo), I::new(0, 0, 0, 0, *hi)], "lddw");
                        n += 1;
                    }
                    // clause 2: unused fields set
                    c16_check(s, &[I::new(opc, 3, 9, -2, *lo), I::new(0, 0, 0, 0, *hi)], "lddw");
                    n += 1;
                }
            }
        } else {
            let offset_set: Vec<i16> = if full_off { (i16::MIN..=i16::MAX).collect() } else if uo { offs_small.clone() } else { vec![0] };
            let imm_set: Vec<i32> = if matches!(k, Kind::End { .. }) { vec![16, 32, 64] } else if ui { imms.clone() } else { vec![0] };
            let dsts: Vec<u8> = if ud { (0..16).collect() } else { vec![0] };
            let srcs: Vec<u8> = if matches!(k, Kind::Call) { vec![0, 1] } else if us { (0..16).collect() } else { vec![0] };
            // with the full offset range the other fields stay on a few fixed combinations (three in
            // the quick tier; thorough: every opcode gets the full range and ~18 combinations)
            let diag = full_off;
            if diag {
                let mut combos: Vec<(u8, u8, i32)> = vec![(0, 0, imm_set[0]), (15, if matches!(k, Kind::Call) { 1 } else { 15 }, *imm_set.last().unwrap()), (3, if matches!(k, Kind::Call) { 1 } else { 9 }, imm_set[imm_set.len() / 2])];
                if thorough {
                    for (n, im) in imm_set.iter().enumerate().step_by((imm_set.len() / 15).max(1)) {
                        combos.push(((n % 16) as u8, if matches!(k, Kind::Call) { (n % 2) as u8 } else { ((n * 7 + 1) % 16) as u8 }, *im));
                    }
                }
                for off in &offset_set {
                    for (d, sr, im) in combos.iter().copied() {
                        c16_check(s, &[I::new(opc, if ud { d } else { 0 }, if us { sr } else { 0 }, *off, if ui { im } else { 0 })], &class);
                        n += 1;
                    }
                }
            }
            let offset_set2: Vec<i16> = if diag { offs_small.clone() } else { offset_set };
            for off in &offset_set2 {
                for imm in &imm_set {
                    for dst in &dsts {
                        for src in &srcs {
                            c16_check(s, &[I::new(opc, *dst, *src, *off, *imm)], &class);
                            n += 1;
                        }
                    }
                }
            }
            // clause 2: unused fields set (every nibble pair, boundary off/imm)
            for dst in 0..16u8 {
                for src in 0..16u8 {
                    if matches!(k, Kind::Call) && src > 1 {
                        continue;
                    }
                    for off in [0i16, 5, -1, -32768] {
                        for imm in [0i32, 16, 7, -1, i32::MIN] {
                            c16_check(s, &[I::new(opc, dst, src, off, imm)], &class);
                            n += 1;
                        }
                    }
                }
            }
            // ... and every small value of an unused offset / immediate (a field that another ISA
            // version gives a meaning to: offset 1 = signed division, 8/16/32 = sign-extending move)
            for (dst, src) in [(1u8, 2u8), (0, 0)] {
                for off in (-4i16..=40).chain([64, 127, 128, 255, 256, 32767]) {
                    for imm in [0i32, 1, 2, 3, 8, 64] {
                        c16_check(s, &[I::new(opc, dst, if matches!(k, Kind::Call) { src.min(1) } else { src }, off, imm)], &class);
                        n += 1;
                    }
                }
            }
        }
        if std::env::var("VERIF_TRACE").is_ok() {
            eprintln!("c16 opcode {opc:#x} evaluations {n} elapsed {:.1}s", s.elapsed_s());
        }
        s.count("evaluations", n);
        s.count("distinct_nontrivial", n);
        s.sample(&class, || json!({"prog": hex(&I::new(opc, 1, if matches!(k, Kind::Call) {1} else {2}, -4, 64).bytes())}));
    }
    if !s.expired() {
        s.done("single instructions");
    }
    // dense immediates -300..=300 for every opcode (two register/offset combinations)
    for &opc in &ops {
        let k = isa::kind(opc).unwrap();
        let idx = g;
        g += 1;
        if !s.take(idx) {
            continue;
        }
        if matches!(k, Kind::LdDw) {
            continue;
        }
        let class = isa::mnemonic(&I::new(opc, 0, 0, 0, 16)).unwrap();
        let (ud, us, uo, _) = isa::uses(k);
        let mut n = 0u64;
        for imm in -300i32..=300 {
            for (d, sr, off) in [(1u8, 2u8, 0i16), (9, 10, -3)] {
                let sr = if matches!(k, Kind::Call) { sr & 1 } else { sr };
                c16_check(s, &[I::new(opc, if ud { d } else { 0 }, if us { sr } else { 0 }, if uo { off } else { 0 }, imm)], &class);
                n += 1;
            }
        }
        s.count("evaluations", n);
        s.count("distinct_nontrivial", n);
    }
    s.done("every immediate in -300..=300 x opcode");
    // control-flow skeletons (see C15): jumps, local calls and wide loads in every relative position
    {
        let nmax = if thorough { 5 } else { 4 };
        for nslots in 1..=nmax {
            for f in crate::isaeng::slot_choices(0, nslots, true) {
                let idx = g;
                g += 1;
                if !s.take(idx) {
                    continue;
                }
                let mut n = 0u64;
                skeletons_from(nslots, f, &mut |sk| {
                    if let Some(p) = crate::isaeng::skeleton_program(sk) {
                        c16_check(s, &p, "skeleton");
                        n += 1;
                    }
                });
                s.count("evaluations", n);
                s.count("distinct_nontrivial", n);
            }
        }
        s.done(&format!("control-flow skeletons of 1..={nmax} slots"));
    }
    // sequences of 2 and 3 over a reduced set
    let atoms: Vec<Vec<I>> = vec![
        vec![isa::EXIT],
        vec![I::new(0x77, 1, 0, 0, 2)], // rsh64 imm
        vec![I::new(0x7c, 1, 2, 0, 0)], // rsh32 reg
        isa::lddw(3, 0x8877665544332211).to_vec(),
        vec![isa::ja(-2)],
        vec![I::new(0x63, 10, 1, -4, 0)],
        vec![I::new(0x15, 1, 0, 3, 0x7fffffff)],
        vec![I::new(0x84, 9, 0, 0, 0)],
        vec![I::new(0x85, 0, 1, 0, 3)],
        vec![I::new(0xdc, 1, 0, 0, 16)],
        vec![I::new(0x30, 0, 0, 0, 5)],
        vec![I::new(0x48, 0, 3, 0, 5)],
    ];
    for a in &atoms {
        let idx = g;
        g += 1;
        if !s.take(idx) {
            continue;
        }
        let mut n = 0;
        for b in &atoms {
            let mut p = a.clone();
            p.extend(b.iter());
            c16_check(s, &p, "seq2");
            n += 1;
            for c in &atoms {
                let mut q = p.clone();
                q.extend(c.iter());
                c16_check(s, &q, "seq3");
                n += 1;
            }
        }
        s.count("evaluations", n);
        s.count("distinct_nontrivial", n);
    }
    s.done("sequences of 2 and 3 instructions");
    // twins: the same instruction twice, and pairs that differ in exactly one field (for lddw also
    // in only the low or only the high half) - programs in which a per-program cache would hit
    for &opc in &ops {
        let k = isa::kind(opc).unwrap();
        let idx = g;
        g += 1;
        if !s.take(idx) {
            continue;
        }
        let mut n = 0u64;
        for base in twin_bases(opc, k) {
            for other in twin_variants(&base, k) {
                for order in 0..3 {
                    let mut p: Vec<I> = vec![];
                    match order {
                        0 => { p.extend(base.iter()); p.extend(other.iter()); }
                        1 => { p.extend(other.iter()); p.extend(base.iter()); }
                        _ => { p.extend(base.iter()); p.extend(other.iter()); p.extend(base.iter()); }
                    }
                    c16_check(s, &p, "twins");
                    n += 1;
                }
            }
        }
        s.count("evaluations", n);
        s.count("distinct_nontrivial", n);
    }
    s.done("twins: every opcode, pairs and triples of instructions equal or differing in one field");
    // second clause: the slot after a wide load with other fields set, including its opcode byte
    let idx = g;
    if s.take(idx) {
        let mut n = 0u64;
        let l = isa::lddw(3, 0x1122_3344_8899_aabb);
        for opc2 in [0u8, 0xb7, 0x95, 0x05, 0x07, 0x18, 0x85, 0x61, 0xd4, 0xff, 0x01] {
            for (d2, s2, o2) in [(0u8, 0u8, 0i16), (1, 0, 0), (0, 2, 0), (0, 0, 1), (9, 10, -1), (15, 15, i16::MIN)] {
                for tail in [vec![isa::EXIT], vec![isa::mov64i(0, 1), isa::EXIT], vec![]] {
                    for lead in [vec![], vec![isa::mov64i(1, 2)]] {
                        let mut p: Vec<I> = lead.clone();
                        p.push(l[0]);
                        p.push(I::new(opc2, d2, s2, o2, l[1].imm));
                        p.extend(tail.iter());
                        c16_check_x(s, &p, "lddw-second-half-fields", opc2 != 0);
                        n += 1;
                    }
                }
            }
        }
        s.count("evaluations", n);
        s.count("distinct_nontrivial", n);
        s.done("wide loads whose second slot has other fields set (opcode byte, registers, offset)");
    }
    if s.take(g + 7) {
        c16_print_roundtrip(s, thorough);
    }
}

pub fn replay_roundtrip_junk(v: &Value) -> bool {
    v["junk_second_half"].as_bool().unwrap_or(false)
}

pub fn replay_roundtrip(v: &Value) -> Vec<String> {
    let p = isa::dec(&unhex(v["prog"].as_str().unwrap()));
    let mut s = Sink::new("C16", Tier::Quick, 0, 1, None, None, 3600);
    c16_check_x(&mut s, &p, "replay", replay_roundtrip_junk(v));
    let r = s.finish();
    r["violations"].as_array().unwrap().iter().map(|x| format!("{}: {}", x["sig"].as_str().unwrap(), x["detail"].as_str().unwrap())).collect()
}
