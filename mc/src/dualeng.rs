//! Engine `dual` (C20): the same enumerated corpora evaluated by rbpf built with default
//! features (this process) and by rbpf built with default features off (child process
//! rbpf-mc-nostd); the two transcripts must be identical case by case.

use crate::common::*;
use crate::isa::{self, I};
use crate::isaeng;
use crate::refmodel::{End, Val};
use crate::transcript;
use crate::vm::VmKind;
use serde_json::{json, Value};
use std::io::{BufRead, BufReader, Write};
use std::process::{Child, ChildStdin, ChildStdout, Command, Stdio};

struct Twin {
    child: Child,
    stdin: ChildStdin,
    stdout: BufReader<ChildStdout>,
}

impl Twin {
    fn start() -> Twin {
        // the twin built next to this binary: <root>/mc/target/release/rbpf-mc -> <root>/mc-nostd/target/release/rbpf-mc-nostd
        let beside = std::env::current_exe().ok().and_then(|p| p.ancestors().nth(4).map(|r| r.join("mc-nostd/target/release/rbpf-mc-nostd"))).filter(|p| p.exists()).map(|p| p.to_string_lossy().to_string());
        let exe = std::env::var("RBPF_MC_NOSTD").ok().or(beside).unwrap_or_else(|| "/verif/mc-nostd/target/release/rbpf-mc-nostd".into());
        let mut child = Command::new(&exe).stdin(Stdio::piped()).stdout(Stdio::piped()).stderr(Stdio::null()).spawn().unwrap_or_else(|e| panic!("cannot start {exe}: {e}"));
        let stdin = child.stdin.take().unwrap();
        let stdout = BufReader::new(child.stdout.take().unwrap());
        Twin { child, stdin, stdout }
    }
    /// Evaluate a batch in the child; returns one line per case, or None if the child died.
    fn eval(&mut self, cases: &[Value]) -> Option<Vec<String>> {
        let mut buf = String::new();
        for c in cases {
            buf.push_str(&c.to_string());
            buf.push('\n');
        }
        buf.push_str("FLUSH\n");
        // write in a thread-free way: batches are small enough for the pipe buffers on both sides
        self.stdin.write_all(buf.as_bytes()).ok()?;
        self.stdin.flush().ok()?;
        let mut out = Vec::with_capacity(cases.len());
        for _ in 0..cases.len() {
            let mut l = String::new();
            let n = self.stdout.read_line(&mut l).ok()?;
            if n == 0 {
                return None;
            }
            out.push(l.trim_end().to_string());
        }
        Some(out)
    }
}

impl Drop for Twin {
    fn drop(&mut self) {
        let _ = self.child.kill();
        let _ = self.child.wait();
    }
}

/// Answers may contain raw addresses when the two builds disagree (e.g. a value read from a
/// buffer that one build overwrote with a pointer): keep them out of the printed detail so that
/// a replay prints the same text.
fn scrub_addr(s: &str) -> String {
    let mut out = String::new();
    for tok in s.split_inclusive(|c: char| !c.is_ascii_hexdigit()) {
        let (body, tail) = match tok.char_indices().find(|(_, c)| !c.is_ascii_hexdigit()) {
            Some((i, _)) => tok.split_at(i),
            None => (tok, ""),
        };
        if body.len() == 12 && (body.starts_with("7f") || body.starts_with("55") || body.starts_with("56")) {
            out.push_str("ADDR");
        } else {
            out.push_str(body);
        }
        out.push_str(tail);
    }
    out
}

fn case_class(c: &Value) -> String {
    match c["k"].as_str().unwrap_or("?") {
        "asm" => "assembler".into(),
        "ver" => "verifier".into(),
        "dis" => "disassembler".into(),
        "run" => "interpreter+jit".into(),
        "seq" => "api-sequence".into(),
        "hlp" => "helpers".into(),
        "res" => "fresh-stack".into(),
        "alw" => "allowed-memory".into(),
        "clc" => "stateful-calculator".into(),
        x => x.into(),
    }
}

fn compare(s: &mut Sink, twin: &mut Option<Twin>, cases: Vec<Value>) {
    // batches small enough that neither pipe can fill up while the other side is still writing
    let bs = if cases.first().map_or(false, |c| c["k"] == "run") { 2 } else { 64 };
    for chunk in cases.chunks(bs) {
        if twin.is_none() {
            *twin = Some(Twin::start());
        }
        let theirs = twin.as_mut().unwrap().eval(chunk);
        let Some(theirs) = theirs else {
            // the no_std twin died: find the case by feeding one at a time
            *twin = None;
            for c in chunk {
                let mut t = Twin::start();
                let r = t.eval(std::slice::from_ref(c));
                let mine = transcript::eval(c);
                s.count("evaluations", 1);
                match r {
                    Some(l) if l[0] == mine => {}
                    Some(l) => s.violation(&format!("dual/{}/answers-differ", case_class(c)), format!("std: {} / no_std: {}", scrub_addr(&mine), scrub_addr(&l[0])), json!({"kind":"dual","case":c})),
                    None => s.violation(&format!("dual/{}/no_std-build-crashed", case_class(c)), format!("std: {mine} / no_std build: process died"), json!({"kind":"dual","case":c})),
                }
            }
            continue;
        };
        for (c, l) in chunk.iter().zip(theirs.iter()) {
            let mine = transcript::eval(c);
            s.count("evaluations", 1);
            if c["k"] == "res" && (mine.contains("unstable") || l.contains("unstable")) {
                // a build that gives a program two different views of its fresh stack has no single
                // answer to compare
                s.outcome("fresh-stack-contents-unstable(not compared)", 1);
                continue;
            }
            if mine != *l {
                let which = if mine.split('|').next() != l.split('|').next() { "answers-differ" } else { "jit-answers-differ" };
                s.violation(&format!("dual/{}/{which}", case_class(c)), format!("std: {} / no_std: {}", scrub_addr(&mine[..mine.len().min(300)]), scrub_addr(&l[..l.len().min(300)])), json!({"kind":"dual","case":c}));
            } else {
                s.outcome(if mine.starts_with("Ok") || mine.starts_with("acc") { "same:ok" } else if mine.contains("Err") || mine == "rej" { "same:err" } else { "same:other" }, 1);
                if mine.starts_with("Ok") || mine.starts_with("acc") || mine.contains(":") {
                    s.count("distinct_nontrivial", 1);
                }
            }
        }
    }
}

fn run_case(kind: VmKind, prog: &[I], inputs: &[Vec<u8>], helpers: bool, max_steps: u64) -> Value {
    let mut jit = vec![];
    let mut masks = vec![];
    let mut defined = vec![];
    for inp in inputs {
        let mut m = isaeng::model_for(prog, kind, inp, &[], helpers);
        m.max_steps = max_steps;
        let end = m.run();
        let def = matches!(end, End::Ret(Val::Int(_)));
        jit.push(def && !prog.iter().any(|i| i.opc == 0x85 && i.src == 1));
        defined.push(def);
        // bytes the reference machine calls defined at the end of the run (for runs that end in an
        // error or outside the claim: the bytes defined at that point)
        let mut mask = vec![0u8; (inp.len() + 7) / 8];
        if matches!(end, End::Ret(_) | End::Err(_)) {
            for (i, c) in m.packet.iter().enumerate() {
                if matches!(c, crate::refmodel::Cell::Def(_)) {
                    mask[i / 8] |= 1 << (i % 8);
                }
            }
        }
        masks.push(hex(&mask));
    }
    json!({"k":"run","vm": if matches!(kind, VmKind::Raw) {"raw"} else {"nodata"},"p":hex(&isa::enc(prog)),"in":inputs.iter().map(|x| hex(x)).collect::<Vec<_>>(),"jit":jit,"m":masks,"d":defined,"h":helpers,"b":max_steps * 2 + 1000})
}

pub fn run(s: &mut Sink) {
    let thorough = s.tier == Tier::Thorough;
    s.meta.insert("alphabet".into(), json!({
        "assembler": "the C13 texts (all of the quick tier) and the C14 strings/token sequences of the quick tier",
        "verifier": "C06 byte strings: n = 1 with the full focus alphabet, n = 2 with a reduced focus alphabet, every opcode x every register byte",
        "disassembler": "the C15 programs of the quick tier (every supported opcode x 256 register nibbles x offsets x immediates)",
        "interpreter_and_jit": "C01/C03 layer 1 (every descriptor, 31 operand inputs each), layer 2 sequences of length <= 2, layer 3 skeletons with 3 slots, straight-line programs of 1..1400 long-encoding instructions (div/mod by register, lddw) around the code-page boundaries; the JIT runs from caller-supplied executable memory in the no_std build, on the inputs the reference machine proves defined",
    }));
    s.meta.insert("bound".into(), json!("reduced tiers of the corpora of C01, C03, C06, C13, C14, C15 as listed"));
    s.meta.insert("rule".into(), json!("every case is evaluated by both builds and the two canonical answers are compared (accept/reject, bytes, entries, values, errors-vs-values; error texts are not compared); non-trivial = cases with an Ok/accept answer or a value"));
    let mut twin: Option<Twin> = None;
    let mk = |prop: &str, s: &Sink| {
        let mut d = Sink::new(prop, Tier::Quick, s.shard, s.nshards, None, None, 3600);
        d.seed = s.seed;
        d
    };
    // assembler texts
    {
        let mut d = mk("C13", s);
        rec_start();
        crate::text::run_c13(&mut d);
        let mut cases = rec_take();
        rec_start();
        crate::text::run_c14(&mut d);
        let c14 = rec_take();
        // C14: keep strings of at most 4 characters / 3 tokens in the quick tier
        cases.extend(c14.into_iter().filter(|c| thorough || c["t"].as_str().map_or(0, |t| t.len()) <= 24));
        s.count("assembler_cases", cases.len() as u64);
        compare(s, &mut twin, cases);
        s.done("assembler corpus");
    }
    // disassembler programs
    {
        let mut d = mk("C15", s);
        rec_start();
        crate::text::run_c15(&mut d);
        let cases = rec_take();
        s.count("disassembler_cases", cases.len() as u64);
        compare(s, &mut twin, cases);
        s.done("disassembler corpus");
    }
    // verifier byte strings
    {
        let mut cases = vec![];
        let ctx = crate::byteseng::context_alphabet();
        let mut g = 0u64;
        for opc in 0..=255u8 {
            let idx = g;
            g += 1;
            if !s.take(idx) {
                continue;
            }
            // n = 1: full focus alphabet
            for dst in [0u8, 9, 10, 11, 15] {
                for src in [0u8, 1, 2, 10, 11, 15] {
                    for off in [-2i16, -1, 0, 1, 2, 32767, -32768] {
                        for imm in [0i32, 1, -1, 16, 32, 64, 8, i32::MIN, i32::MAX] {
                            cases.push(json!({"k":"ver","p":hex(&I::new(opc, dst, src, off, imm).bytes())}));
                        }
                    }
                }
            }
            // n = 2: reduced focus alphabet in both positions, full context alphabet
            for (_, cx) in &ctx {
                for dst in [0u8, 10, 11] {
                    for src in [0u8, 1, 11] {
                        for off in [0i16, 1, -1, -2, -3] {
                            for imm in [0i32, 16, 1, -2] {
                                let f = I::new(opc, dst, src, off, imm);
                                cases.push(json!({"k":"ver","p":hex(&isa::enc(&[f, *cx]))}));
                                cases.push(json!({"k":"ver","p":hex(&isa::enc(&[*cx, f]))}));
                            }
                        }
                    }
                }
            }
            // every register byte
            for reg in 0..=255u8 {
                cases.push(json!({"k":"ver","p":hex(&isa::enc(&[I::new(opc, reg & 15, reg >> 4, 0, 16), isa::EXIT]))}));
            }
        }
        s.count("verifier_cases", cases.len() as u64);
        compare(s, &mut twin, cases);
        s.done("verifier corpus");
    }
    // interpreter and JIT programs
    {
        let mut cases = vec![];
        let mut g = 1000u64;
        for (n, c) in isaeng::l1_enumerate(false).iter().enumerate() {
            if n % 32 == 0 {
                g += 1;
            }
            if !s.take(g) {
                continue;
            }
            if !thorough && n % 4 != 0 {
                continue;
            }
            let prog = isaeng::l1_program(c);
            let inputs: Vec<Vec<u8>> = (0..31).map(|i| isaeng::l1_packet(c, V64[i], V64[(i * 7 + 3) % 31])).collect();
            cases.push(run_case(VmKind::Raw, &prog, &inputs, c.kind == isaeng::L1Kind::Call, 2000));
        }
        let alpha = isaeng::a2_alphabet();
        let inputs2: Vec<Vec<u8>> = isaeng::l2_states().iter().map(isaeng::l2_packet).collect();
        for a in 0..alpha.len() {
            g += 1;
            if !s.take(g) {
                continue;
            }
            cases.push(run_case(VmKind::Raw, &isaeng::l2_program(&[&alpha[a].1]), &inputs2, true, 5000));
            for b in 0..alpha.len() {
                cases.push(run_case(VmKind::Raw, &isaeng::l2_program(&[&alpha[a].1, &alpha[b].1]), &inputs2, true, 5000));
            }
        }
        let n = 3;
        for a in isaeng::slot_choices(0, n, true) {
            g += 1;
            if !s.take(g) {
                continue;
            }
            for b in isaeng::slot_choices(1, n, true) {
                for c in isaeng::slot_choices(2, n, true) {
                    if let Some(prog) = isaeng::skeleton_program(&[a, b, c]) {
                        if rbpf::EbpfVmMbuff::new(Some(&isa::enc(&prog))).is_ok() {
                            cases.push(run_case(VmKind::NoData, &prog, &[vec![]], false, 2000));
                        }
                    }
                }
            }
        }
        // straight-line programs dense in long encodings, around the page-size boundaries of the
        // emitted code (the std and the no_std JIT constructors size their buffers separately)
        let units: Vec<Vec<I>> = vec![vec![I::new(0x3f, 8, 7, 0, 0)], vec![I::new(0x9f, 8, 9, 0, 0)], vec![I::new(0x3c, 3, 4, 0, 0)], isa::lddw(3, 0x1122334455667788).to_vec(), vec![isa::mov64i(3, 1)]];
        for (ui, unit) in units.iter().enumerate() {
            g += 1;
            if !s.take(g) {
                continue;
            }
            for len in [1usize, 60, 90, 100, 110, 118, 119, 120, 121, 170, 400, 680, 700, 1400] {
                let mut prog = vec![isa::mov64i(0, 0), isa::mov64i(7, 3), isa::mov64i(8, 1000), isa::mov64i(9, 7), isa::mov64i(3, 50), isa::mov64i(4, 3)];
                for _ in 0..len {
                    prog.extend(unit.iter());
                }
                prog.push(isa::mov64r(0, if ui < 2 { 8 } else { 3 }));
                prog.push(isa::EXIT);
                cases.push(run_case(VmKind::NoData, &prog, &[vec![]], false, 10_000));
            }
        }
        s.count("program_cases", cases.len() as u64);
        s.sample("run", || cases.first().cloned().unwrap_or(json!(null)));
        compare(s, &mut twin, cases);
        s.done("interpreter and JIT corpus");
    }
    // built-in helpers present in both builds (gather_bytes, memfrob, strcmp)
    {
        let g0 = 4000u64;
        if s.take(g0) {
            let mut cases = vec![];
            for pos in 0..5 {
                for x in [0u64, 1, 0x7f, 0x80, 0xff, 0x100, 0xffff_ffff, u64::MAX] {
                    let mut a = [0x11u64, 0x22, 0x33, 0x44, 0x55];
                    a[pos] = x;
                    cases.push(json!({"k":"hlp","name":"gather","args":a}));
                }
            }
            let data: Vec<u8> = (0..80u8).map(|k| k.wrapping_mul(29).wrapping_add(3)).collect();
            for off in 0..8u64 {
                for len in (0..=40u64).chain([63, 64, 65, 72]) {
                    if off + len <= 80 {
                        cases.push(json!({"k":"hlp","name":"memfrob","args":[off, len, 0, 7, u64::MAX],"bufs":[hex(&data)]}));
                    }
                }
            }
            let alpha = [0x01u8, 0x61, 0x7f, 0x80, 0xff];
            let mut strs: Vec<Vec<u8>> = vec![vec![]];
            for a in alpha {
                strs.push(vec![a]);
                for b in alpha {
                    strs.push(vec![a, b]);
                }
            }
            // longer strings: a common prefix with and without bytes >= 0x80
            for l in [7usize, 8, 9, 16, 17, 40] {
                for fill in [0x61u8, 0xc3] {
                    for tail in [vec![], vec![0x61], vec![0x62], vec![0xff]] {
                        let mut x = vec![fill; l];
                        x.extend(tail);
                        strs.push(x);
                    }
                }
            }
            for a in &strs {
                for b in &strs {
                    for third in [0u64, 3] {
                        cases.push(json!({"k":"hlp","name":"strcmp","args":[third, 0, 0],"bufs":[hex(a), hex(b)]}));
                    }
                }
            }
            s.count("helper_cases", cases.len() as u64);
            s.sample("hlp", || cases.last().cloned().unwrap_or(json!(null)));
            compare(s, &mut twin, cases);
            s.done("built-in helpers present in both builds");
            // what a program reads from stack bytes it never wrote, after another execution on the same
            // thread wrote them
            let mut cases = vec![];
            let slots: [i16; 6] = [-8, -16, -24, -256, -504, -512];
            for wkind in 0..3u8 {
                for rmask in 1..64u8 {
                    let mut w: Vec<I> = isa::lddw(6, 0x1122_3344_5566_7788).to_vec();
                    for o in slots {
                        w.push(isa::stxdw(10, o, 6));
                    }
                    match wkind {
                        0 => {}
                        1 => w.push(isa::ldxdw(0, 10, 8)), // the writer then faults (load above the stack)
                        _ => w.push(isa::call_helper(0x7fff_fff0)), // ... or calls an unregistered helper
                    }
                    w.push(isa::mov64i(0, 0));
                    w.push(isa::EXIT);
                    let mut r: Vec<I> = vec![isa::mov64i(0, 0)];
                    for (k, o) in slots.iter().enumerate() {
                        if rmask & (1 << k) != 0 {
                            r.push(isa::ldxdw(2, 10, *o));
                            r.push(I::new(0xaf, 0, 2, 0, 0)); // xor64 r0, r2
                            r.push(I::new(0x27, 0, 0, 0, 3)); // mul64 r0, 3
                        }
                    }
                    r.push(isa::EXIT);
                    cases.push(json!({"k":"res","w":hex(&isa::enc(&w)),"r":hex(&isa::enc(&r))}));
                }
            }
            compare(s, &mut twin, cases);
            s.done("fresh-stack contents after an earlier execution on the same thread");
            // registered allowed memory: every layout of the C02 alphabet (adjacent, nested, overlapping,
            // 1 and 4 bytes apart, each also in reversed registration order) x a load of each width at
            // every offset within 3 bytes of an end of a range
            let mut cases = vec![];
            let layouts: Vec<Vec<(u64, u64)>> = vec![vec![(64, 16)], vec![(64, 16), (80, 16)], vec![(64, 8), (76, 8)], vec![(64, 8), (73, 8)], vec![(64, 32), (64, 4), (72, 4)], vec![(64, 16), (72, 16)], vec![(64, 8), (64, 16), (64, 24), (64, 32)], vec![(64, 32), (70, 2), (90, 6)], vec![(100, 3), (64, 40)]];
            for l in &layouts {
                let mut orders = vec![l.clone()];
                let mut r = l.clone();
                r.reverse();
                if r != *l {
                    orders.push(r);
                }
                let mut ats: Vec<u64> = vec![];
                for (o, n) in l {
                    for d in -3i64..=3 {
                        ats.push((*o as i64 + d) as u64);
                        ats.push((*o as i64 + *n as i64 + d) as u64);
                    }
                }
                ats.sort();
                ats.dedup();
                for ord in &orders {
                    for at in &ats {
                        for w in [1u64, 2, 4, 8] {
                            cases.push(json!({"k":"alw","ranges":ord.iter().map(|(o, n)| json!([o, n])).collect::<Vec<_>>(),"at":at,"w":w}));
                        }
                    }
                }
            }
            // a calculator with state (k-th invocation returns base + step * k) and functions that are
            // called from one, two and three places
            for sites in 1..=3usize {
                for (base, step) in [(16u64, 8u64), (64, 0), (8, 24), (256, 8)] {
                    // main: `sites` calls of f, results added; f: r6 = r10; call g; exit; g: r0 = r10 - r6; exit
                    let mut m: Vec<I> = vec![isa::mov64i(7, 0)];
                    for k in 0..sites {
                        let remaining = (sites - k - 1) * 2 + 3; // to f: past the remaining calls/adds, mov, exit
                        m.push(isa::call_local(remaining as i32));
                        m.push(isa::add64r(7, 0));
                    }
                    m.push(isa::mov64r(0, 7));
                    m.push(isa::EXIT);
                    // f
                    m.push(isa::mov64r(6, 10));
                    m.push(isa::call_local(1));
                    m.push(isa::EXIT);
                    // g
                    m.push(isa::mov64r(0, 10));
                    m.push(isa::sub64r(0, 6));
                    m.push(isa::EXIT);
                    cases.push(json!({"k":"clc","p":hex(&isa::enc(&m)),"base":base,"step":step}));
                }
            }
            s.count("allowed_memory_cases", cases.len() as u64);
            compare(s, &mut twin, cases);
            s.done("registered allowed memory: 9 layouts x registration orders x loads around every range end");
        }
    }
    // API sequences on one VM object: every VM kind, every sequence of <= 4 calls after new()
    {
        let pa = isa::enc(&[isa::mov64i(0, 0x11), isa::EXIT]);
        let pb = isa::enc(&[isa::mov64i(0, 0x22), isa::EXIT]);
        // reads the first 8 bytes of what r1 points to (mbuff kinds: the caller's buffer / the internal one)
        let pm = isa::enc(&[isa::ldxdw(0, 1, 0), isa::EXIT]);
        // fixed VM: data_end - data
        let pd = isa::enc(&[isa::ldxdw(0, 1, 0x40), isa::ldxdw(2, 1, 0x50), isa::sub64r(2, 0), isa::mov64r(0, 2), isa::EXIT]);
        let ph = isa::enc(&[isa::mov64i(1, 1), isa::mov64i(2, 2), isa::mov64i(3, 3), isa::mov64i(4, 4), isa::mov64i(5, 5), isa::call_helper(1), isa::EXIT]);
        // a program every verifier-in-force here refuses (no final exit): a set_program that fails
        // must leave the VM - compiled code included - as it was, in both builds
        let px = isa::enc(&[isa::mov64i(0, 0x33), isa::mov64i(0, 0x44)]);
        let progs = vec![hex(&pa), hex(&pb), hex(&pm), hex(&pd), hex(&ph), hex(&px)];
        let pkt = hex(&[0x41u8, 2, 3, 4, 5, 6, 7, 8, 9, 10, 11, 12]);
        let mut cases = vec![];
        let mut g = 5000u64;
        for kind in ["raw", "mbuff", "fixed", "nodata"] {
            // programs meaningful for the kind: constants always; M for mbuff kinds (a raw VM would
            // return a raw address); D for the fixed VM
            let mut ps = vec![0usize, 1, 4];
            if kind == "mbuff" {
                ps.push(2);
            }
            if kind == "fixed" {
                ps.push(3);
            }
            let mut alphabet: Vec<String> = vec!["jit_compile".into(), "helper".into(), format!("exec:{pkt}"), format!("exec_jit:{pkt}")];
            for p in &ps {
                alphabet.push(format!("set_program:{p}"));
            }
            alphabet.push("set_program:5".into());
            let mut inits: Vec<String> = vec!["new:none".into()];
            for p in &ps {
                inits.push(format!("new:{p}"));
            }
            let depth = if thorough { 5 } else { 4 };
            for init in &inits {
                g += 1;
                if !s.take(g) {
                    continue;
                }
                let mut frontier: Vec<Vec<String>> = vec![vec![init.clone()]];
                for _ in 0..depth {
                    let mut next = vec![];
                    for f in &frontier {
                        for a in &alphabet {
                            let mut x = f.clone();
                            x.push(a.clone());
                            next.push(x);
                        }
                    }
                    for x in &next {
                        cases.push(json!({"k":"seq","vm":kind,"progs":progs,"steps":x}));
                    }
                    frontier = next;
                }
            }
        }
        // longer histories around re-binding a helper id between two compilations
        g += 1;
        if s.take(g) {
            for kind in ["raw", "mbuff", "fixed", "nodata"] {
                let e = format!("exec:{pkt}");
                let ej = format!("exec_jit:{pkt}");
                for steps in [
                    vec!["new:4", "helper", "jit_compile", "helper2", "jit_compile", &ej, &e],
                    vec!["new:4", "helper2", "jit_compile", "helper", "jit_compile", &ej, &e],
                    vec!["new:none", "helper", "set_program:4", "jit_compile", "helper2", "jit_compile", &ej],
                    vec!["new:4", "helper", "jit_compile", &ej, "helper2", "jit_compile", &ej, "set_program:4", &ej, "jit_compile", &ej],
                    vec!["new:0", "jit_compile", "set_program:4", "helper", "jit_compile", "jit_compile", &ej, "helper2", &ej, "jit_compile", &ej],
                ] {
                    cases.push(json!({"k":"seq","vm":kind,"progs":progs,"steps":steps}));
                }
            }
        }
        s.count("api_sequence_cases", cases.len() as u64);
        s.sample("seq", || cases.last().cloned().unwrap_or(json!(null)));
        compare(s, &mut twin, cases);
        s.done("API sequences on one VM (every kind, depth <= 4; plus histories of up to 11 calls around re-binding a helper between compilations)");
    }
    s.sample("asm", || json!({"k":"asm","t":"lddw r1, 0x1122334455667788\nexit"}));
}

pub fn replay(v: &Value) -> Vec<String> {
    let c = &v["case"];
    let mut t = Twin::start();
    let mine = transcript::eval(c);
    match t.eval(std::slice::from_ref(c)) {
        Some(l) if l[0] == mine => vec![],
        Some(l) => vec![format!("dual/{}/answers-differ: std: {} / no_std: {}", case_class(c), scrub_addr(&mine), scrub_addr(&l[0]))],
        None => vec![format!("dual/{}/no_std-build-crashed", case_class(c))],
    }
}
