//! Canonical transcript of rbpf's answers on one case. Compiled twice: into rbpf-mc (rbpf with
//! default features) and into rbpf-mc-nostd (rbpf with default features off, cargo feature
//! `nostd` of the harness crate set). Only rbpf's public API is used.

use serde_json::Value;

fn hexs(b: &[u8]) -> String {
    let mut s = String::with_capacity(b.len() * 2);
    for x in b {
        s.push_str(&format!("{:02x}", x));
    }
    s
}

fn unhexs(s: &str) -> Vec<u8> {
    let b = s.as_bytes();
    let d = |c: u8| -> u8 {
        match c {
            b'0'..=b'9' => c - b'0',
            b'a'..=b'f' => c - b'a' + 10,
            _ => c - b'A' + 10,
        }
    };
    let mut v = Vec::with_capacity(b.len() / 2);
    let mut i = 0;
    while i + 1 < b.len() {
        v.push(d(b[i]) << 4 | d(b[i + 1]));
        i += 2;
    }
    v
}

fn fnv64(b: &[u8]) -> u64 {
    let mut h: u64 = 0xcbf29ce484222325;
    for x in b {
        h ^= *x as u64;
        h = h.wrapping_mul(0x100000001b3);
    }
    h
}

/// Packet memory far away from the heap (an anonymous mapping): with packets on the heap a
/// wild `packet + offset` address can land in the interpreter's own heap-allocated stack, which
/// would make an answer depend on the allocator's layout.
fn packet_arena() -> *mut u8 {
    static ARENA: std::sync::OnceLock<usize> = std::sync::OnceLock::new();
    *ARENA.get_or_init(|| unsafe {
        let len = 1 << 16;
        let p = libc::mmap(std::ptr::null_mut(), len, libc::PROT_READ | libc::PROT_WRITE, libc::MAP_PRIVATE | libc::MAP_ANONYMOUS, -1, 0);
        assert!(p != libc::MAP_FAILED);
        p as usize
    }) as *mut u8
}

fn in_arena(data: &[u8]) -> &'static mut [u8] {
    unsafe {
        let p = packet_arena().add(4096);
        std::ptr::copy_nonoverlapping(data.as_ptr(), p, data.len());
        std::slice::from_raw_parts_mut(p, data.len())
    }
}

fn caught<T>(f: impl FnOnce() -> T) -> Result<T, ()> {
    std::panic::catch_unwind(std::panic::AssertUnwindSafe(f)).map_err(|_| ())
}

fn helper_gather(a: u64, b: u64, c: u64, d: u64, e: u64) -> u64 {
    (a << 32) | (b << 24) | (c << 16) | (d << 8) | e
}

#[cfg(feature = "nostd")]
fn exec_mem() -> &'static mut [u8] {
    // page-aligned read/write/execute memory for the JIT (caller-supplied in the no_std build)
    unsafe {
        let len = 1 << 20;
        let p = libc::mmap(std::ptr::null_mut(), len, libc::PROT_READ | libc::PROT_WRITE | libc::PROT_EXEC, libc::MAP_PRIVATE | libc::MAP_ANONYMOUS, -1, 0);
        assert!(p != libc::MAP_FAILED);
        std::slice::from_raw_parts_mut(p as *mut u8, len)
    }
}

#[cfg(feature = "nostd")]
fn release_mem(m: *mut u8) {
    unsafe {
        libc::munmap(m as *mut libc::c_void, 1 << 20);
    }
}

/// Run one program on the interpreter and (where flagged) the JIT, for each input.
fn eval_run(v: &Value) -> String {
    let prog = unhexs(v["p"].as_str().unwrap_or(""));
    let raw = v["vm"].as_str().unwrap_or("raw") == "raw";
    let helpers = v["h"].as_bool().unwrap_or(false);
    let inputs: Vec<Vec<u8>> = v["in"].as_array().map(|a| a.iter().map(|x| unhexs(x.as_str().unwrap_or(""))).collect()).unwrap_or_default();
    let jit_flags: Vec<bool> = v["jit"].as_array().map(|a| a.iter().map(|x| x.as_bool().unwrap_or(false)).collect()).unwrap_or_default();
    let budget = v["b"].as_u64().unwrap_or(100_000);
    // per input: bitmap of the packet bytes whose value is defined (no addresses, no
    // uninitialised data) and whether the returned value is defined; only those are reported
    let masks: Vec<Vec<u8>> = v["m"].as_array().map(|a| a.iter().map(|x| unhexs(x.as_str().unwrap_or(""))).collect()).unwrap_or_default();
    let defined: Vec<bool> = v["d"].as_array().map(|a| a.iter().map(|x| x.as_bool().unwrap_or(false)).collect()).unwrap_or_default();
    let masked = |k: usize, mem: &[u8]| -> u64 {
        let m = masks.get(k);
        let mut sel = Vec::with_capacity(mem.len());
        for (i, b) in mem.iter().enumerate() {
            let on = m.map_or(false, |m| m.get(i / 8).map_or(false, |x| x & (1 << (i % 8)) != 0));
            if on {
                sel.push(*b);
            }
        }
        fnv64(&sel)
    };
    let show = |k: usize, x: u64| -> String {
        if defined.get(k).copied().unwrap_or(false) {
            format!("{x:x}")
        } else {
            "-".into()
        }
    };
    let mut out = String::new();
    // interpreter
    let r = caught(|| {
        let mut s = String::new();
        let mut vm = match rbpf::EbpfVmRaw::new(Some(&prog)) {
            Ok(v) => v,
            Err(_) => return "LoadErr".to_string(),
        };
        if helpers {
            let _ = vm.register_helper(1, helper_gather);
        }
        for (k, inp) in inputs.iter().enumerate() {
            let mem = in_arena(inp);
            rbpf::verif_hooks::set_insn_budget(Some(budget));
            let r = if raw {
                let m: &mut [u8] = unsafe { std::slice::from_raw_parts_mut(mem.as_mut_ptr(), mem.len()) };
                vm.execute_program(m)
            } else {
                let m: &mut [u8] = unsafe { std::slice::from_raw_parts_mut(mem.as_mut_ptr(), 0) };
                vm.execute_program(m)
            };
            rbpf::verif_hooks::set_insn_budget(None);
            match r {
                Ok(x) => s.push_str(&format!("Ok:{}:{:x};", show(k, x), masked(k, &mem))),
                Err(_) => s.push_str(&format!("Err:{:x};", masked(k, &mem))),
            }
        }
        s
    });
    rbpf::verif_hooks::set_insn_budget(None);
    out.push_str(&r.unwrap_or_else(|_| "panic".into()));
    out.push('|');
    // JIT (only on inputs the generator proved defined and in bounds)
    if jit_flags.iter().any(|x| *x) {
        let r = caught(|| {
            let mut s = String::new();
            #[cfg(feature = "nostd")]
            let memx = exec_mem();
            #[cfg(feature = "nostd")]
            let memp = memx.as_mut_ptr();
            {
                let mut vm = match rbpf::EbpfVmRaw::new(Some(&prog)) {
                    Ok(v) => v,
                    Err(_) => return "LoadErr".to_string(),
                };
                if helpers {
                    let _ = vm.register_helper(1, helper_gather);
                }
                #[cfg(feature = "nostd")]
                {
                    let _ = vm.set_jit_exec_memory(memx);
                }
                if vm.jit_compile().is_err() {
                    s.push_str("CompileErr");
                } else {
                    for (k, inp) in inputs.iter().enumerate() {
                        if !jit_flags.get(k).copied().unwrap_or(false) {
                            s.push_str("-;");
                            continue;
                        }
                        let mem = in_arena(inp);
                        let m: &mut [u8] = unsafe { std::slice::from_raw_parts_mut(mem.as_mut_ptr(), if raw { mem.len() } else { 0 }) };
                        match unsafe { vm.execute_program_jit(m) } {
                            Ok(x) => s.push_str(&format!("Ok:{}:{:x};", show(k, x), masked(k, &mem))),
                            Err(_) => s.push_str("Err;"),
                        }
                    }
                }
            }
            #[cfg(feature = "nostd")]
            release_mem(memp);
            s
        });
        out.push_str(&r.unwrap_or_else(|_| "panic".into()));
    }
    out
}

// ------------------------------------------------------------------------------------------
// API sequences on one VM object (every VM kind; compile / load / execute in any order)

enum SeqVm<'a> {
    Raw(rbpf::EbpfVmRaw<'a>),
    Mbuff(rbpf::EbpfVmMbuff<'a>),
    Fixed(rbpf::EbpfVmFixedMbuff<'a>),
    NoData(rbpf::EbpfVmNoData<'a>),
}

/// Built-in helpers that exist in both builds: gather_bytes, memfrob, strcmp.
fn eval_hlp(v: &Value) -> String {
    let name = v["name"].as_str().unwrap_or("").to_string();
    let a: Vec<u64> = v["args"].as_array().map(|x| x.iter().map(|y| y.as_u64().unwrap_or(0)).collect()).unwrap_or_default();
    let bufs: Vec<Vec<u8>> = v["bufs"].as_array().map(|x| x.iter().map(|y| unhexs(y.as_str().unwrap_or(""))).collect()).unwrap_or_default();
    let r = caught(|| match name.as_str() {
        "gather" => format!("{:#x}", rbpf::helpers::gather_bytes(a[0], a[1], a[2], a[3], a[4])),
        "memfrob" => {
            let mut b = bufs[0].clone();
            let off = a[0] as usize;
            let len = a[1];
            // what memfrob returns is not specified (C19 speaks of the bytes only; glibc's returns the
            // pointer, which would differ between the two processes): the buffer is the answer
            let _ = rbpf::helpers::memfrob(b.as_mut_ptr() as u64 + off as u64, len, a[2], a[3], a[4]);
            format!("frobbed:{}", hexs(&b))
        }
        _ => {
            let mut x = bufs[0].clone();
            x.push(0);
            let mut y = bufs[1].clone();
            y.push(0);
            format!("{:#x}", rbpf::helpers::strcmp(x.as_ptr() as u64, y.as_ptr() as u64, a[0], a[1], a[2]))
        }
    });
    match r {
        Ok(t) => t,
        Err(()) => "panic".into(),
    }
}

fn helper_other(a: u64, _b: u64, _c: u64, _d: u64, _e: u64) -> u64 {
    a.wrapping_add(0x7700)
}

fn eval_seq(v: &Value) -> String {
    let kind = v["vm"].as_str().unwrap_or("raw").to_string();
    let progs: Vec<Vec<u8>> = v["progs"].as_array().map(|a| a.iter().map(|x| unhexs(x.as_str().unwrap_or(""))).collect()).unwrap_or_default();
    let steps: Vec<String> = v["steps"].as_array().map(|a| a.iter().map(|x| x.as_str().unwrap_or("").to_string()).collect()).unwrap_or_default();
    let r = caught(|| {
        // leak the few small buffers of one case: lifetimes of the VM borrow them for 'static
        let progs: &'static Vec<Vec<u8>> = Box::leak(Box::new(progs.clone()));
        let mut out = String::new();
        let mut vm: Option<SeqVm<'static>> = None;
        for st in &steps {
            let (op, arg) = st.split_once(':').unwrap_or((st.as_str(), ""));
            let res: String = match op {
                "new" => {
                    let p = if arg == "none" { None } else { Some(&progs[arg.parse::<usize>().unwrap()][..]) };
                    let r = match kind.as_str() {
                        "raw" => rbpf::EbpfVmRaw::new(p).map(SeqVm::Raw).map_err(|_| ()),
                        "mbuff" => rbpf::EbpfVmMbuff::new(p).map(SeqVm::Mbuff).map_err(|_| ()),
                        "fixed" => rbpf::EbpfVmFixedMbuff::new(p, 0x40, 0x50).map(SeqVm::Fixed).map_err(|_| ()),
                        _ => rbpf::EbpfVmNoData::new(p).map(SeqVm::NoData).map_err(|_| ()),
                    };
                    match r {
                        Ok(x) => {
                            vm = Some(x);
                            "ok".into()
                        }
                        Err(()) => "err".into(),
                    }
                }
                _ if vm.is_none() => "novm".into(),
                "set_program" => {
                    let p = &progs[arg.parse::<usize>().unwrap()][..];
                    let r = match vm.as_mut().unwrap() {
                        SeqVm::Raw(x) => x.set_program(p).is_ok(),
                        SeqVm::Mbuff(x) => x.set_program(p).is_ok(),
                        SeqVm::Fixed(x) => x.set_program(p, 0x40, 0x50).is_ok(),
                        SeqVm::NoData(x) => x.set_program(p).is_ok(),
                    };
                    if r { "ok".into() } else { "err".into() }
                }
                "helper" => {
                    let r = match vm.as_mut().unwrap() {
                        SeqVm::Raw(x) => x.register_helper(1, helper_gather).is_ok(),
                        SeqVm::Mbuff(x) => x.register_helper(1, helper_gather).is_ok(),
                        SeqVm::Fixed(x) => x.register_helper(1, helper_gather).is_ok(),
                        SeqVm::NoData(x) => x.register_helper(1, helper_gather).is_ok(),
                    };
                    if r { "ok".into() } else { "err".into() }
                }
                "helper2" => {
                    let r = match vm.as_mut().unwrap() {
                        SeqVm::Raw(x) => x.register_helper(1, helper_other).is_ok(),
                        SeqVm::Mbuff(x) => x.register_helper(1, helper_other).is_ok(),
                        SeqVm::Fixed(x) => x.register_helper(1, helper_other).is_ok(),
                        SeqVm::NoData(x) => x.register_helper(1, helper_other).is_ok(),
                    };
                    if r { "ok".into() } else { "err".into() }
                }
                "jit_compile" => {
                    #[cfg(feature = "nostd")]
                    {
                        let m = exec_mem(); // leaked: one region per compilation of one case
                        let _ = match vm.as_mut().unwrap() {
                            SeqVm::Raw(x) => x.set_jit_exec_memory(m),
                            SeqVm::Mbuff(x) => x.set_jit_exec_memory(m),
                            SeqVm::Fixed(x) => x.set_jit_exec_memory(m),
                            SeqVm::NoData(x) => x.set_jit_exec_memory(m),
                        };
                    }
                    let r = match vm.as_mut().unwrap() {
                        SeqVm::Raw(x) => x.jit_compile().is_ok(),
                        SeqVm::Mbuff(x) => x.jit_compile().is_ok(),
                        SeqVm::Fixed(x) => x.jit_compile().is_ok(),
                        SeqVm::NoData(x) => x.jit_compile().is_ok(),
                    };
                    if r { "ok".into() } else { "err".into() }
                }
                "exec" | "exec_jit" => {
                    let jit = op == "exec_jit";
                    let mem: &'static mut [u8] = in_arena(&unhexs(arg));
                    let mb: &'static mut [u8] = Box::leak(vec![0x88u8, 0x77, 0x66, 0x55, 0x44, 0x33, 0x22, 0x11, 1, 2, 3, 4, 5, 6, 7, 8, 9, 10, 11, 12, 13, 14, 15, 16, 0, 0, 0, 0, 0, 0, 0, 0].into_boxed_slice());
                    rbpf::verif_hooks::set_insn_budget(Some(10_000));
                    let r = unsafe {
                        match vm.as_mut().unwrap() {
                            SeqVm::Raw(x) => if jit { x.execute_program_jit(mem) } else { x.execute_program(mem) },
                            SeqVm::Mbuff(x) => if jit { x.execute_program_jit(mem, mb) } else { x.execute_program(mem, mb) },
                            SeqVm::Fixed(x) => if jit { x.execute_program_jit(mem) } else { x.execute_program(mem) },
                            SeqVm::NoData(x) => if jit { x.execute_program_jit() } else { x.execute_program() },
                        }
                    };
                    rbpf::verif_hooks::set_insn_budget(None);
                    match r {
                        Ok(x) => format!("{x:x}"),
                        Err(_) => "err".into(),
                    }
                }
                _ => "?".into(),
            };
            out.push_str(&res);
            out.push(';');
        }
        out
    });
    rbpf::verif_hooks::set_insn_budget(None);
    r.unwrap_or_else(|_| "panic".into())
}

/// What a program sees in stack bytes it never wrote, after an earlier execution on the same thread
/// wrote there. One case = program W once, then program R twice, each on a VM of its own
/// (interpreter). If R's two results differ the build itself has no single answer ("unstable", not
/// compared); otherwise the answer is what this build shows to a program that reads its fresh stack.
fn eval_res(v: &Value) -> String {
    let w = unhexs(v["w"].as_str().unwrap_or(""));
    let r = unhexs(v["r"].as_str().unwrap_or(""));
    let run = |p: &[u8]| -> String {
        match caught(|| {
            let vm = match rbpf::EbpfVmNoData::new(Some(p)) {
                Ok(v) => v,
                Err(_) => return "LoadErr".to_string(),
            };
            rbpf::verif_hooks::set_insn_budget(Some(10_000));
            let x = vm.execute_program();
            rbpf::verif_hooks::set_insn_budget(None);
            match x {
                Ok(v) => format!("Ok:{v:x}"),
                Err(_) => "Err".into(),
            }
        }) {
            Ok(s) => s,
            Err(()) => "panic".into(),
        }
    };
    let w0 = run(&w);
    let r1 = run(&r);
    let r2 = run(&r);
    if r1 == r2 {
        format!("res:{}:{r1}", if w0.starts_with("Ok") { "w-ok" } else { "w-err" })
    } else {
        "res:unstable".into()
    }
}

/// Registered allowed memory: ranges (offset, length) inside a 256-byte buffer of the arena are
/// registered on a no-data VM and one load of `w` bytes at offset `at` is interpreted. The answer
/// (value or error) must not depend on the build, whatever the ranges look like (nested, overlapping,
/// adjacent, registered in any order).
fn eval_alw(v: &Value) -> String {
    let ranges: Vec<(u64, u64)> = v["ranges"].as_array().map(|a| a.iter().map(|x| (x[0].as_u64().unwrap_or(0), x[1].as_u64().unwrap_or(0))).collect()).unwrap_or_default();
    let at = v["at"].as_u64().unwrap_or(0);
    let w = v["w"].as_u64().unwrap_or(1);
    let data: Vec<u8> = (0..256u32).map(|k| (k as u8).wrapping_mul(7).wrapping_add(1)).collect();
    let mem = in_arena(&data);
    let base = mem.as_ptr() as u64;
    let addr = base + at;
    // lddw r1, addr ; ldx{b,h,w,dw} r0, [r1+0] ; exit
    let ldx = match w { 1 => 0x71u8, 2 => 0x69, 4 => 0x61, _ => 0x79 };
    let mut p: Vec<u8> = vec![0x18, 0x01, 0, 0];
    p.extend_from_slice(&(addr as u32).to_le_bytes());
    p.extend_from_slice(&[0, 0, 0, 0]);
    p.extend_from_slice(&((addr >> 32) as u32).to_le_bytes());
    p.extend_from_slice(&[ldx, 0x10, 0, 0, 0, 0, 0, 0]);
    p.extend_from_slice(&[0x95, 0, 0, 0, 0, 0, 0, 0]);
    match caught(|| {
        let mut vm = match rbpf::EbpfVmNoData::new(Some(&p)) {
            Ok(v) => v,
            Err(_) => return "LoadErr".to_string(),
        };
        for (o, l) in &ranges {
            vm.register_allowed_memory(base + o..base + o + l);
        }
        match vm.execute_program() {
            Ok(x) => format!("Ok:{x:x}"),
            Err(_) => "Err".into(),
        }
    }) {
        Ok(s) => s,
        Err(()) => "panic".into(),
    }
}

/// A stack-usage calculator with state: its k-th invocation (k = 0, 1, ...) returns base + step * k,
/// whatever function it is asked about. Which invocation ends up deciding a function's frame is the
/// library's business - but both builds must decide alike.
fn stateful_calc(_prog: &[u8], _pc: usize, data: &mut dyn core::any::Any) -> u16 {
    let st = match data.downcast_mut::<(u16, u16, u16)>() {
        Some(s) => s,
        None => match data.downcast_mut::<Box<dyn core::any::Any>>().and_then(|b| b.downcast_mut::<(u16, u16, u16)>()) {
            Some(s) => s,
            None => return 256,
        },
    };
    let v = st.0 + st.1 * st.2;
    st.2 += 1;
    v
}

fn eval_clc(v: &Value) -> String {
    let p = unhexs(v["p"].as_str().unwrap_or(""));
    let base = v["base"].as_u64().unwrap_or(16) as u16;
    let step = v["step"].as_u64().unwrap_or(8) as u16;
    match caught(|| {
        let mut vm = match rbpf::EbpfVmNoData::new(Some(&p)) {
            Ok(v) => v,
            Err(_) => return "LoadErr".to_string(),
        };
        if vm.set_stack_usage_calculator(stateful_calc, Box::new((base, step, 0u16))).is_err() {
            return "CalcErr".to_string();
        }
        rbpf::verif_hooks::set_insn_budget(Some(10_000));
        let r = vm.execute_program();
        rbpf::verif_hooks::set_insn_budget(None);
        match r {
            Ok(x) => format!("Ok:{x:x}"),
            Err(_) => "Err".into(),
        }
    }) {
        Ok(s) => s,
        Err(()) => "panic".into(),
    }
}

pub fn eval(v: &Value) -> String {
    match v["k"].as_str().unwrap_or("") {
        "clc" => eval_clc(v),
        "alw" => eval_alw(v),
        "res" => eval_res(v),
        "asm" => {
            let t = v["t"].as_str().unwrap_or("");
            match caught(|| rbpf::assembler::assemble(t)) {
                Ok(Ok(b)) => format!("Ok:{}", hexs(&b)),
                Ok(Err(_)) => "Err".into(),
                Err(()) => "panic".into(),
            }
        }
        "ver" => {
            let p = unhexs(v["p"].as_str().unwrap_or(""));
            match caught(|| rbpf::EbpfVmMbuff::new(Some(&p)).is_ok()) {
                Ok(true) => "acc".into(),
                Ok(false) => "rej".into(),
                Err(()) => "panic".into(),
            }
        }
        "dis" => {
            let p = unhexs(v["p"].as_str().unwrap_or(""));
            match caught(|| rbpf::disassembler::to_insn_vec(&p)) {
                Ok(es) => {
                    // hash of all fields of all entries (the descriptions included)
                    let mut acc = String::new();
                    for e in &es {
                        acc.push_str(&format!("{},{},{},{},{},{},{};", e.opc, e.name, e.dst, e.src, e.off, e.imm, e.desc));
                    }
                    format!("{}:{:x}", es.len(), fnv64(acc.as_bytes()))
                }
                Err(()) => "panic".into(),
            }
        }
        "run" => eval_run(v),
        "hlp" => eval_hlp(v),
        "seq" => eval_seq(v),
        _ => "unknown-case-kind".into(),
    }
}
