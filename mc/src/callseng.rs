//! Engine parts for C07 (eBPF-to-eBPF calls) and C08 (helper calls).

use crate::common::*;
use crate::isa::{self, I};
use crate::isaeng::{self, cmp_with_interp, cmp_with_model, run_group, Obs};
use crate::refmodel::{self, End, Machine, Val};
use crate::vm::{self, AnyVm, Buf, Eng, Out, VmKind};
use serde_json::{json, Value};
use std::sync::atomic::{AtomicU64, AtomicUsize, Ordering};

// ==========================================================================================
// C08: instrumented helpers. Each stub records rsp at entry, then jumps to its recorder.

static RSP_AT_ENTRY: AtomicU64 = AtomicU64::new(0);
static LOG_LEN: AtomicUsize = AtomicUsize::new(0);
const LOG_CAP: usize = 64;
static mut LOG: [(u8, [u64; 5], u64); LOG_CAP] = [(0, [0; 5], 0); LOG_CAP];

#[no_mangle]
pub static mut VERIF_RSP_SLOT: u64 = 0;

/// 0 = plain recorder; 1/2/3 = the helper itself runs another eBPF program (which uses its own
/// stack and callee-saved registers) on a VM of its own, under the interpreter / JIT / Cranelift,
/// on the calling thread - helpers that re-enter the library are legal
pub static NESTED: std::sync::atomic::AtomicU8 = std::sync::atomic::AtomicU8::new(0);

pub fn nested_run(mode: u8) {
    use std::sync::OnceLock;
    static P: OnceLock<Vec<u8>> = OnceLock::new();
    let prog = P.get_or_init(|| {
        let mut v = vec![];
        v.extend(isa::lddw(6, 0x0bad_0bad_0bad_0bad));
        v.extend(isa::lddw(7, 0x0bad_0bad_0bad_0bad));
        v.extend(isa::lddw(8, 0x0bad_0bad_0bad_0bad));
        v.extend(isa::lddw(9, 0x0bad_0bad_0bad_0bad));
        for off in [-8i16, -16, -24, -256, -504, -512] {
            v.push(isa::stxdw(10, off, 6));
        }
        v.push(isa::mov64i(0, 7));
        v.push(isa::EXIT);
        isa::enc(&v)
    });
    let eng = match mode { 1 => Eng::Interp, 2 => Eng::Jit, _ => Eng::Cl };
    // the instruction budget is per thread: the nested run must not eat the outer run's
    let outer = rbpf::verif_hooks::insn_budget();
    rbpf::verif_hooks::set_insn_budget(None);
    let mut v = AnyVm::new_plain(VmKind::NoData, Some(prog)).expect("nested load");
    v.compile(eng).expect("nested compile");
    let r = v.exec(eng, vm::empty_raw(), vm::empty_raw());
    rbpf::verif_hooks::set_insn_budget(outer);
    assert_eq!(r, Ok(7), "nested execution");
}

fn record(which: u8, a: [u64; 5]) -> u64 {
    let n = LOG_LEN.fetch_add(1, Ordering::Relaxed);
    let rsp = unsafe { std::ptr::read_volatile(&raw const VERIF_RSP_SLOT) };
    RSP_AT_ENTRY.store(rsp, Ordering::Relaxed);
    if n < LOG_CAP {
        unsafe {
            LOG[n] = (which, a, rsp);
        }
    }
    let m = NESTED.load(Ordering::Relaxed);
    if m != 0 {
        nested_run(m);
    }
    ret_value(which, a)
}

pub fn ret_value(which: u8, a: [u64; 5]) -> u64 {
    0x7e57_0000_0000_0000u64 ^ ((which as u64) << 40) ^ a[0] ^ a[1].rotate_left(7) ^ a[2].rotate_left(19) ^ a[3].rotate_left(31) ^ a[4].rotate_left(43)
}

macro_rules! recorder {
    ($rec:ident, $stub:ident, $n:expr) => {
        #[no_mangle]
        pub extern "C" fn $rec(a: u64, b: u64, c: u64, d: u64, e: u64) -> u64 {
            record($n, [a, b, c, d, e])
        }
        extern "C" {
            fn $stub(a: u64, b: u64, c: u64, d: u64, e: u64) -> u64;
        }
    };
}
recorder!(verif_rec_0, verif_stub_0, 0);
recorder!(verif_rec_1, verif_stub_1, 1);
recorder!(verif_rec_2, verif_stub_2, 2);
recorder!(verif_rec_3, verif_stub_3, 3);

std::arch::global_asm!(
    ".globl verif_stub_0",
    "verif_stub_0:",
    "mov [rip + {slot}], rsp",
    "jmp {r0}",
    ".globl verif_stub_1",
    "verif_stub_1:",
    "mov [rip + {slot}], rsp",
    "jmp {r1}",
    ".globl verif_stub_2",
    "verif_stub_2:",
    "mov [rip + {slot}], rsp",
    "jmp {r2}",
    ".globl verif_stub_3",
    "verif_stub_3:",
    "mov [rip + {slot}], rsp",
    "jmp {r3}",
    slot = sym VERIF_RSP_SLOT,
    r0 = sym verif_rec_0,
    r1 = sym verif_rec_1,
    r2 = sym verif_rec_2,
    r3 = sym verif_rec_3,
);

fn stub(n: usize) -> rbpf::Helper {
    let f: unsafe extern "C" fn(u64, u64, u64, u64, u64) -> u64 = match n {
        0 => verif_stub_0,
        1 => verif_stub_1,
        2 => verif_stub_2,
        _ => verif_stub_3,
    };
    // rbpf's Helper is a Rust-ABI fn pointer; for five u64 arguments and a u64 result the Rust
    // and C ABIs coincide on x86-64 (rbpf's own JIT relies on exactly this)
    unsafe { std::mem::transmute::<unsafe extern "C" fn(u64, u64, u64, u64, u64) -> u64, rbpf::Helper>(f) }
}

fn log_reset() {
    LOG_LEN.store(0, Ordering::Relaxed);
}
fn log_get() -> Vec<(u8, [u64; 5], u64)> {
    let n = LOG_LEN.load(Ordering::Relaxed).min(LOG_CAP);
    (0..n).map(|k| unsafe { LOG[k] }).collect()
}

/// The four registrable ids (sub-alphabet) and the full id alphabet for call sites.
const REG_IDS: [u32; 4] = [1, 10, 16, 0xffff_ffff];
const CALL_IDS: [u32; 9] = [0, 1, 6, 10, 16, 17, 0x7fff_ffff, 0x8000_0000, 0xffff_ffff];

#[derive(Clone, Copy, Debug)]
pub struct C08Case {
    pub id: u32,
    /// bit i set = REG_IDS[i] registered (with recorder i)
    pub regset: u8,
    pub depth: u8,
    pub earlier: u8,
    pub dstf: u8,
    /// other instructions in the same program: 0 none, 1 `ldabsb` after the call, 2 `ldabsb` in
    /// dead code, 3 `ldindb` before, 4 mul/div/mod before, 5 stack store + atomic add + lddw before
    pub ctx: u8,
    /// compile, bind the id to another helper, compile again: the call must reach the new one
    pub rebind: bool,
    /// the VM object held a decoy program before (vm::set_reload): decoy 2 is 64 calls of helper 1
    pub reload: u8,
    /// the helper runs a nested eBPF program (NESTED)
    pub nested: u8,
}

const SENT6: u64 = 0x6666_0000_0000_6666;
const SENT7: u64 = 0x7777_1111_2222_7777;
const D_R0: i16 = 0;
const D_R6: i16 = 8;
const D_R7: i16 = 16;
const D_R10: i16 = 24;
const D_MARK: i16 = 32;
const D_STK: i16 = 40;

/// Instructions that leave something in a scratch resource of a compiler (shift count, multiply /
/// divide operands, an address): placed where they are *adjacent in program order* to the code
/// around the call without being executed before it (ctx = 6 + index).
fn c08_adjacent() -> Vec<I> {
    let mut v = vec![];
    for k in 1..=5u8 {
        v.push(I::new(0x6f, 0, k, 0, 0)); // lsh64 r0, rk
    }
    v.push(I::new(0x7c, 0, 4, 0, 0)); // rsh32 r0, r4
    v.push(I::new(0xcf, 0, 3, 0, 0)); // arsh64 r0, r3
    v.push(I::new(0x2f, 0, 4, 0, 0)); // mul64 r0, r4
    v.push(I::new(0x3f, 0, 5, 0, 0)); // div64 r0, r5
    v.push(I::new(0x9c, 0, 2, 0, 0)); // mod32 r0, r2
    v.push(I::new(0xbf, 0, 4, 0, 0)); // mov64 r0, r4
    v.push(I::new(0xbc, 4, 3, 0, 0)); // mov32 r4, r3
    v.push(I::new(0x0f, 0, 1, 0, 0)); // add64 r0, r1
    v.push(I::new(0x7b, 10, 4, -8, 0)); // stxdw [r10-8], r4
    v.push(I::new(0xb7, 4, 0, 0, 0)); // mov64 r4, 0
    v
}

fn c08_program(c: &C08Case, args: &[u64; 5]) -> Vec<I> {
    // r9 = packet base, r6/r7 sentinels, r8 = copy of r10 (checked by difference)
    let mut main: Vec<I> = vec![isa::mov64r(9, 1)];
    main.extend(isa::lddw(6, SENT6));
    main.extend(isa::lddw(7, SENT7));
    let mut body: Vec<I> = vec![];
    body.push(isa::mov64r(8, 10));
    let earlier_id = REG_IDS.iter().enumerate().find(|(i, _)| c.regset & (1 << i) != 0).map(|(_, id)| *id);
    for _ in 0..c.earlier {
        if let Some(eid) = earlier_id {
            for (k, a) in args.iter().enumerate() {
                body.extend(isa::lddw(k as u8 + 1, a.rotate_left(3)));
            }
            body.push(I::new(0x85, 0, 0, 0, eid as i32));
        }
    }
    match c.ctx {
        3 => {
            body.push(isa::mov64i(2, 1));
            body.push(I::new(0x50, 0, 2, 0, 0));
        }
        4 => {
            body.push(isa::mov64i(0, 7));
            body.push(I::new(0x27, 0, 0, 0, 3));
            body.push(I::new(0x37, 0, 0, 0, 2));
            body.push(I::new(0x97, 0, 0, 0, 5));
        }
        5 => {
            body.push(isa::stdw(10, -8, 1));
            body.push(isa::mov64i(2, 1));
            body.push(I::new(0xdb, 10, 2, -8, 0));
            body.extend(isa::lddw(3, 0x1122334455667788));
        }
        _ => {}
    }
    // ctx >= 6 at depth >= 1: the arguments are loaded by main and pass through the local calls, so
    // that nothing between the function's entry and the helper call writes r1-r5
    let args_in_main = c.ctx >= 6 && c.depth > 0;
    if args_in_main {
        for (k, a) in args.iter().enumerate() {
            main.extend(isa::lddw(k as u8 + 1, *a));
        }
    } else {
        for (k, a) in args.iter().enumerate() {
            body.extend(isa::lddw(k as u8 + 1, *a));
        }
    }
    body.push(I::new(0x85, c.dstf, 0, 0, c.id as i32));
    body.push(isa::stxdw(9, D_R0, 0));
    body.push(isa::stxdw(9, D_R6, 6));
    body.push(isa::stxdw(9, D_R7, 7));
    body.push(isa::sub64r(8, 10));
    body.push(isa::stxdw(9, D_R10, 8));
    body.push(isa::stw(9, D_MARK, 0x600d));
    if c.ctx == 5 {
        // the stack slot written before the call: 1, atomically incremented once
        body.push(isa::ldxdw(1, 10, -8));
        body.push(isa::stxdw(9, D_STK, 1));
    }
    if c.ctx == 1 {
        body.push(I::new(0x30, 0, 0, 0, 0));
    }
    let dead: Vec<I> = if c.ctx == 2 { vec![I::new(0x30, 0, 0, 0, 0), isa::EXIT] } else { vec![] };
    let adj: Vec<I> = if c.ctx >= 6 { vec![c08_adjacent()[c.ctx as usize - 6]] } else { vec![] };
    if c.depth == 0 {
        if !adj.is_empty() {
            // jumped over: adjacent to the call sequence, never executed
            main.push(isa::ja(adj.len() as i16));
            main.extend(adj);
        }
        main.extend(body);
        main.push(isa::mov64i(0, 0));
        main.push(isa::EXIT);
        main.extend(dead);
        return main;
    }
    // main -> f1 -> ... -> f_depth (which contains the body); functions laid out after main
    // each intermediate function: call next ; exit
    main.push(isa::call_local(2 + adj.len() as i32)); // to f1 (after mov64 r0,0 ; [adjacent] ; exit)
    main.push(isa::mov64i(0, 0));
    main.extend(adj); // executed after the return, placed right before the first function
    main.push(isa::EXIT);
    for _ in 1..c.depth {
        main.push(isa::call_local(1));
        main.push(isa::EXIT);
    }
    main.extend(body);
    main.push(isa::EXIT);
    main.extend(dead);
    main
}

fn c08_arg_tuples() -> Vec<[u64; 5]> {
    let base = [0xa1a1_0000_0000_0001u64, 0xb2b2_0000_0000_0002, 0xc3c3_0000_0000_0003, 0xd4d4_0000_0000_0004, 0xe5e5_0000_0000_0005];
    let mut v = vec![base];
    for pos in 0..5 {
        for x in V64 {
            let mut a = base;
            a[pos] = x;
            v.push(a);
        }
    }
    v
}

fn c08_group(s: &mut Sink, eng: Eng, c: &C08Case) {
    let rp = json!({"kind":"helper-call","eng":eng.name(),"id":c.id,"regset":c.regset,"depth":c.depth,"earlier":c.earlier,"dstf":c.dstf,"ctx":c.ctx,"rebind":c.rebind,"reload":c.reload,"nested":c.nested});
    let class = format!("helper-call@depth{}{}{}{}{}", c.depth, if c.ctx >= 6 { "+adjacent".to_string() } else if c.ctx > 0 { format!("+ctx{}", c.ctx) } else { String::new() }, if c.rebind { "+rebind" } else { "" }, if c.reload > 0 { "+reloaded-vm" } else { "" }, if c.nested > 0 { "+nested-vm" } else { "" });
    NESTED.store(c.nested, Ordering::Relaxed);
    struct NestedOff;
    impl Drop for NestedOff {
        fn drop(&mut self) {
            NESTED.store(0, Ordering::Relaxed);
        }
    }
    let _nested = NestedOff;
    let mut registered: Option<usize> = REG_IDS.iter().position(|x| *x == c.id).filter(|i| c.regset & (1 << i) != 0);
    let tuples = c08_arg_tuples();
    let pkt = Buf::new(64, 0);
    for args in &tuples {
        let prog = c08_program(c, args);
        let bytes = isa::enc(&prog);
        s.count("evaluations", 1);
        s.count("states", 1);
        s.count("transitions", prog.len() as u64);
        // reload > 0: the VM is created with a decoy program, the helpers are registered, and only
        // then is the program under test loaded (nothing is registered after set_program)
        let first: &[u8] = if c.reload > 0 { vm::decoy(c.reload) } else { &bytes };
        let mut vmx = match AnyVm::new_plain(VmKind::Raw, Some(first)) {
            Ok(v) => v,
            Err(e) => {
                s.violation(&format!("verifier/{class}/rejects-template"), e, rp.clone());
                return;
            }
        };
        for (i, id) in REG_IDS.iter().enumerate() {
            if c.regset & (1 << i) != 0 {
                vmx.register_helper(*id, stub(i)).unwrap();
            }
        }
        if c.reload > 0 {
            if let Err(e) = vmx.set_program(&bytes, (0, 0)) {
                s.violation(&format!("verifier/{class}/rejects-template"), e, rp.clone());
                return;
            }
        }
        log_reset();
        let compiled = catch(|| vmx.compile(eng));
        match (&compiled, registered, eng) {
            (Err(m), _, _) => {
                s.violation(&format!("{}/{class}/compile-{}", eng.name(), panic_class(m)), m.clone(), rp.clone());
                return;
            }
            (Ok(Err(_)), None, Eng::Jit | Eng::Cl) => {
                // unregistered id refused at compile time: the contract
                s.outcome("compile-refused-unregistered", 1);
                s.count("traces_validated_against_impl", 1);
                if LOG_LEN.load(Ordering::Relaxed) != 0 {
                    s.violation(&format!("{}/{class}/helper-ran-during-compile", eng.name()), "a helper was invoked while compiling".into(), rp.clone());
                }
                // the natural next step: register the helper, compile again (same VM object, same
                // thread) - the refused compilation must have left nothing behind
                if *args == tuples[0] && c.depth == 0 {
                    vmx.register_helper(c.id, stub(2)).unwrap();
                    match catch(|| vmx.compile(eng)) {
                        Ok(Ok(())) => {
                            pkt.fill(&[0u8; 64]);
                            log_reset();
                            let out = vmx.exec_out(eng, pkt.raw(), vm::empty_raw());
                            let log = log_get();
                            if !matches!(out, Out::Ok(_)) || log.last().map(|l| (l.0, l.1)) != Some((2u8, *args)) {
                                s.violation(&format!("{}/{class}/after-refused-compilation:wrong-helper", eng.name()), format!("after a refused compilation the helper was registered and the program compiled again: execution gave {out:?}, invocations {:?}", log.iter().map(|l| l.0).collect::<Vec<_>>()), rp.clone());
                            }
                        }
                        Ok(Err(e)) | Err(e) => s.violation(&format!("{}/{class}/after-refused-compilation:compile-failed", eng.name()), format!("after a refused compilation the helper was registered; compiling again: {e}"), rp.clone()),
                    }
                }
                continue;
            }
            (Ok(Err(e)), _, _) => {
                if c.depth > 0 && eng == Eng::Cl {
                    s.outcome("cranelift-refused-local-call", 1);
                    return;
                }
                s.violation(&format!("{}/{class}/compile-err", eng.name()), format!("compilation refused a program whose helper is registered: {e}"), rp.clone());
                return;
            }
            (Ok(Ok(())), None, Eng::Jit | Eng::Cl) => {
                s.violation(&format!("{}/{class}/compiled-call-to-unregistered-helper", eng.name()), format!("a call to unregistered helper id {:#x} compiled (registered set {:#06b})", c.id, c.regset), rp.clone());
                continue; // do not execute it
            }
            (Ok(Ok(())), _, _) => {}
        }
        if c.rebind {
            if let Some(w) = REG_IDS.iter().position(|x| *x == c.id).filter(|i| c.regset & (1 << i) != 0) {
                let neww = (w + 1) % 4;
                vmx.register_helper(c.id, stub(neww)).unwrap();
                registered = Some(neww);
                match catch(|| vmx.compile(eng)) {
                    Ok(Ok(())) => {}
                    Ok(Err(e)) | Err(e) => {
                        s.violation(&format!("{}/{class}/recompile-failed", eng.name()), e, rp.clone());
                        return;
                    }
                }
            }
        }
        pkt.fill(&[0u8; 64]);
        log_reset();
        let out = vmx.exec_out(eng, pkt.raw(), vm::empty_raw());
        s.count("traces_validated_against_impl", 1);
        s.count("distinct_nontrivial", 1);
        let log = log_get();
        let earlier_n = if REG_IDS.iter().enumerate().any(|(i, _)| c.regset & (1 << i) != 0) { c.earlier as usize } else { 0 };
        match registered {
            None => {
                // interpreter: error when reached; nothing but the earlier (registered) calls ran
                match out {
                    Out::Err(_) => s.outcome("unregistered-err", 1),
                    Out::Ok(v) => s.violation(&format!("{}/{class}/unregistered-id-executed-something", eng.name()), format!("calling unregistered id {:#x} returned Ok({v:#x})", c.id), rp.clone()),
                    Out::Panic(m) => s.violation(&format!("{}/{class}/{}", eng.name(), panic_class(&m)), m, rp.clone()),
                }
                if log.len() != earlier_n {
                    s.violation(&format!("{}/{class}/unregistered-id-invoked-a-helper", eng.name()), format!("{} helper invocations, expected {earlier_n}", log.len()), rp.clone());
                }
            }
            Some(which) => {
                if let Out::Err(e) | Out::Panic(e) = &out {
                    s.violation(&format!("{}/{class}/err", eng.name()), format!("execution failed: {e}"), rp.clone());
                    continue;
                }
                if log.len() != earlier_n + 1 {
                    s.violation(&format!("{}/{class}/invocation-count", eng.name()), format!("{} helper invocations for {} executed calls", log.len(), earlier_n + 1), rp.clone());
                    continue;
                }
                let (w, a, rsp) = log[log.len() - 1];
                if w as usize != which {
                    s.violation(&format!("{}/{class}/wrong-helper", eng.name()), format!("id {:#x} is registered with recorder {which} but recorder {w} ran", c.id), rp.clone());
                }
                if a != *args {
                    let pos = (0..5).find(|k| a[*k] != args[*k]).unwrap();
                    s.violation(&format!("{}/{class}/argument-{}-mismatch", eng.name(), pos + 1), format!("helper received {a:x?}, registers r1-r5 held {args:x?}"), rp.clone());
                }
                for (_, _, r) in &log {
                    if r % 16 != 8 {
                        s.violation(&format!("{}/{class}/stack-misaligned", eng.name()), format!("rsp at helper entry is {} (mod 16); the C ABI requires 8 (16-byte aligned before the call)", r % 16), rp.clone());
                        break;
                    }
                }
                let b = pkt.bytes();
                let rd = |o: i16| u64::from_le_bytes(b[o as usize..o as usize + 8].try_into().unwrap());
                if rd(D_MARK) & 0xffff_ffff != 0x600d {
                    s.violation(&format!("{}/{class}/did-not-resume-after-call", eng.name()), "the instructions after the call did not run".into(), rp.clone());
                    continue;
                }
                let want = ret_value(w, a);
                if rd(D_R0) != want {
                    s.violation(&format!("{}/{class}/return-value-not-in-r0", eng.name()), format!("r0 after the call = {:#x}, the helper returned {want:#x}", rd(D_R0)), rp.clone());
                }
                if rd(D_R6) != SENT6 || rd(D_R7) != SENT7 {
                    s.violation(&format!("{}/{class}/callee-saved-clobbered", eng.name()), format!("r6 = {:#x}, r7 = {:#x} after the call", rd(D_R6), rd(D_R7)), rp.clone());
                }
                if rd(D_R10) != 0 {
                    s.violation(&format!("{}/{class}/r10-changed", eng.name()), format!("r10 moved by {} across the helper call", rd(D_R10) as i64), rp.clone());
                }
                if c.ctx == 5 && rd(D_STK) != 2 {
                    s.violation(&format!("{}/{class}/stack-slot-changed", eng.name()), format!("the caller's stack slot [r10-8] held 2 before the helper call and reads {:#x} after it", rd(D_STK)), rp.clone());
                }
                if !pkt.canary_ok() {
                    s.violation(&format!("{}/{class}/wrote-outside-packet", eng.name()), "bytes next to the packet changed".into(), rp.clone());
                    pkt.reset_canary();
                }
            }
        }
    }
    s.sample(&format!("c08-depth{}", c.depth), || json!({"descriptor": rp, "program": isa::listing(&c08_program(c, &c08_arg_tuples()[0]))}));
}

/// Helpers registered on a fixed-metadata VM before the program is loaded with other offsets.
fn c08_fixed_reload(s: &mut Sink, eng: Eng) {
    for (i, id) in REG_IDS.iter().enumerate() {
        for (o0, o1) in [((0usize, 0usize), (0x40usize, 0x50usize)), ((0x40, 0x50), (0x40, 0x50)), ((0x40, 0x50), (0, 8)), ((0, 8), (0x50, 0x40))] {
            let bytes = isa::enc(&[isa::mov64i(1, 1), isa::mov64i(2, 2), isa::mov64i(3, 3), isa::mov64i(4, 4), isa::mov64i(5, 5), I::new(0x85, 0, 0, 0, *id as i32), isa::EXIT]);
            let rp = json!({"kind":"none"});
            let class = "helper-call@fixed-reload";
            s.count("evaluations", 1);
            s.count("states", 1);
            s.count("transitions", 4);
            s.count("traces_validated_against_impl", 1);
            s.count("distinct_nontrivial", 1);
            let pkt = Buf::new(16, 0);
            log_reset();
            let r = catch(|| -> Result<Out, String> {
                let mut vmx = AnyVm::new(VmKind::Fixed(o0.0, o0.1), None)?;
                vmx.register_helper(*id, stub(i))?;
                vmx.set_program(&bytes, o1)?;
                vmx.compile(eng)?;
                Ok(vmx.exec_out(eng, pkt.raw(), vm::empty_raw()))
            });
            let log = log_get();
            match r {
                Ok(Ok(Out::Ok(v))) => {
                    let want = ret_value(i as u8, [1, 2, 3, 4, 5]);
                    if log.len() != 1 || log[0].0 as usize != i || v != want {
                        s.violation(&format!("{}/{class}/wrong-helper", eng.name()), format!("new(None, {o0:?}); register_helper({id:#x}); set_program(.., {o1:?}); execute: returned {v:#x} after {} invocations, expected {want:#x} from recorder {i}", log.len()), rp);
                    }
                }
                Ok(Ok(other)) => s.violation(&format!("{}/{class}/err", eng.name()), format!("new(None, {o0:?}); register_helper({id:#x}); set_program(.., {o1:?}); execute: {other:?}"), rp),
                Ok(Err(e)) | Err(e) => s.violation(&format!("{}/{class}/err", eng.name()), format!("new(None, {o0:?}); register_helper({id:#x}); set_program(.., {o1:?}); compile: {e}"), rp),
            }
        }
    }
}

pub fn run_c08(s: &mut Sink) {
    let thorough = s.tier == Tier::Thorough;
    s.meta.insert("alphabet".into(), json!({
        "call_ids": CALL_IDS.iter().map(|x| format!("{x:#x}")).collect::<Vec<_>>(),
        "registered_sets": "all 16 subsets of {1, 10, 16, 0xffffffff}, each id bound to its own instrumented helper",
        "call_sites": "top level; inside local functions at depth 1,2,3 (interpreter, JIT); after 0,1,2 earlier helper calls",
        "arguments": "each of r1..r5 over V64 with the others distinguishable",
        "dst_field": [0, 3],
        "context2": "an ALU / shift / multiply / divide / store instruction adjacent in program order to the function that calls (15 of them), arguments passed through the local calls; the VM object held another program before (3 decoys, one of them 64 calls of helper 1); the helper itself runs a nested eBPF program under each engine and the caller's stack slot is read back",
        "context": "with all four ids registered: ldabs after the call / in dead code, ldind before, mul+div+mod before, stack store + atomic add + lddw before; the id re-bound to another helper between two compilations",
        "engines": ["interp", "jit", "cranelift"],
    }));
    s.meta.insert("bound".into(), json!("one observed helper call per program (plus up to 2 earlier ones), call depth <= 3"));
    s.meta.insert("rule".into(), json!("case = (id, registered set, depth, earlier calls, dst field, engine, argument tuple); non-trivial = executed on the implementation (compile-time refusals counted separately)"));
    s.meta.insert("assumptions".into(), json!(["rsp is recorded by a 2-instruction assembly stub at the helper's entry; Rust and C ABIs coincide for fn(u64 x5) -> u64 on x86-64"]));
    let mut g = 0u64;
    for eng in [Eng::Interp, Eng::Jit, Eng::Cl] {
        for id in CALL_IDS {
            for regset in 0..16u8 {
                let idx = g;
                g += 1;
                if !s.take(idx) {
                    continue;
                }
                if s.expired() {
                    s.cut("helper calls");
                    return;
                }
                for depth in [0u8, 1, 2, 3, 8] {
                    if depth > 0 && eng == Eng::Cl && !(regset == 0b1111 && id == 1) {
                        continue;
                    }
                    // depth 8: the innermost function of the deepest legal chain (one id, all registered)
                    if depth == 8 && !(regset == 0b1111 && (id == 10 || id == 0xffff_ffff)) {
                        continue;
                    }
                    for earlier in 0..=2u8 {
                        for dstf in [0u8, 3] {
                            if !thorough && dstf == 3 && (earlier > 0 || depth > 1) {
                                continue;
                            }
                            let c = C08Case { id, regset, depth, earlier, dstf, ctx: 0, rebind: false, reload: 0, nested: 0 };
                            let rp = json!({"kind":"helper-call","eng":eng.name(),"id":id,"regset":regset,"depth":depth,"earlier":earlier,"dstf":dstf,"ctx":0,"rebind":false});
                            s.mark(idx, &format!("{}/helper-call@depth{depth}", eng.name()), &rp);
                            run_group(s, eng, &format!("helper-call@depth{depth}"), &rp, move |cs| c08_group(cs, eng, &c));
                        }
                    }
                    // other instructions around the call, and re-binding the id between two compilations
                    if regset == 0b1111 && REG_IDS.contains(&id) {
                        let mut variants: Vec<(u8, bool, u8, u8)> = vec![(1, false, 0, 0), (2, false, 0, 0), (3, false, 0, 0), (4, false, 0, 0), (5, false, 0, 0), (0, true, 0, 0), (1, true, 0, 0)];
                        // the VM object held another program before; the helper re-enters the library
                        variants.extend([(0, false, 1, 0), (0, false, 2, 0), (0, false, 3, 0), (1, true, 2, 0), (5, false, 0, 1), (5, false, 0, 2), (5, false, 0, 3), (0, false, 0, 1)]);
                        // an instruction adjacent (in program order) to the code around the call
                        if id == 10 || thorough {
                            for k in 0..c08_adjacent().len() as u8 {
                                variants.push((6 + k, false, 0, 0));
                            }
                        }
                        for (ctx, rebind, reload, nested) in variants {
                            if depth == 8 && (ctx != 0 || nested != 0) {
                                continue;
                            }
                            if (ctx == 5 || ctx == 19) && depth > 1 {
                                continue; // frames of 256 bytes: below depth 1 there is no stack left to store in
                            }
                            let c = C08Case { id, regset, depth, earlier: 0, dstf: 0, ctx, rebind, reload, nested };
                            let rp = json!({"kind":"helper-call","eng":eng.name(),"id":id,"regset":regset,"depth":depth,"earlier":0,"dstf":0,"ctx":ctx,"rebind":rebind,"reload":reload,"nested":nested});
                            s.mark(idx, &format!("{}/helper-call@depth{depth}", eng.name()), &rp);
                            run_group(s, eng, &format!("helper-call@depth{depth}"), &rp, move |cs| c08_group(cs, eng, &c));
                        }
                    }
                }
            }
        }
    }
    for eng in [Eng::Interp, Eng::Jit, Eng::Cl] {
        let idx = g;
        g += 1;
        if !s.take(idx) {
            continue;
        }
        let rp = json!({"kind":"none"});
        s.mark(idx, &format!("{}/helper-call@fixed-reload", eng.name()), &rp);
        run_group(s, eng, "helper-call@fixed-reload", &rp, move |cs| c08_fixed_reload(cs, eng));
    }
    s.done("helper calls");
}

pub fn replay_c08(v: &Value) -> Vec<String> {
    let eng = Eng::parse(v["eng"].as_str().unwrap());
    let c = C08Case { id: v["id"].as_u64().unwrap() as u32, regset: v["regset"].as_u64().unwrap() as u8, depth: v["depth"].as_u64().unwrap() as u8, earlier: v["earlier"].as_u64().unwrap() as u8, dstf: v["dstf"].as_u64().unwrap() as u8, ctx: v["ctx"].as_u64().unwrap_or(0) as u8, rebind: v["rebind"].as_bool().unwrap_or(false), reload: v["reload"].as_u64().unwrap_or(0) as u8, nested: v["nested"].as_u64().unwrap_or(0) as u8 };
    let mut s = Sink::new("replay", Tier::Quick, 0, 1, None, None, 3600);
    let rp = v.clone();
    run_group(&mut s, eng, "helper-call", &rp, move |cs| c08_group(cs, eng, &c));
    let r = s.finish();
    r["violations"].as_array().unwrap().iter().map(|x| format!("{}: {}", x["sig"].as_str().unwrap(), x["detail"].as_str().unwrap())).collect()
}

// ==========================================================================================
// C07: call graphs

#[derive(Clone, Copy, Debug, PartialEq, Eq)]
pub enum Calc {
    None,
    Const(u16),
    PcDep,
    /// depends on the program text (its length) as well as on the pc
    ProgDep,
}

fn calc_value_n(c: Calc, pc: usize, n_insns: usize) -> u64 {
    match c {
        Calc::None => 256,
        Calc::Const(v) => v as u64,
        Calc::PcDep => (16 + 8 * pc as u64) & 0xffff,
        Calc::ProgDep => 16 + 8 * ((n_insns + pc) % 32) as u64,
    }
}

fn calc_value(c: Calc, pc: usize) -> u64 {
    calc_value_n(c, pc, 0)
}

fn calc_fn(prog: &[u8], pc: usize, data: &mut dyn std::any::Any) -> u16 {
    let n_insns = prog.len() / 8;
    // rbpf hands over `&mut Box<dyn Any>` coerced to `&mut dyn Any`: the payload is one level down
    let mode = match data.downcast_ref::<Calc>() {
        Some(m) => *m,
        None => *data.downcast_ref::<Box<dyn std::any::Any>>().and_then(|b| b.downcast_ref::<Calc>()).expect("calculator data"),
    };
    calc_value_n(mode, pc, n_insns) as u16
}

#[derive(Clone, Copy, Debug)]
pub struct C07Case {
    pub depth: u8,
    pub reversed: bool,
    /// body option bits: 1 = set r6-r9 in every function, 2 = stack tag at [r10-8] written and read back,
    /// 4 = also touch the lowest slot of the frame, 8 = helper call inside every function,
    /// 16 = only the two outermost functions touch the stack (deeper frames lie below the 512 bytes
    /// but are never accessed), 32 = r6-r9 are written by 32-bit ALU instructions only, 64 = by wide loads (lddw) only
    pub body: u8,
    pub calc: Calc,
    pub recursive: bool,
    pub vsel: u8,
    /// every non-leaf function calls its callee twice (a second call after the first returned)
    pub twice: bool,
    /// a packet load is the instruction immediately before every local call: 0 none, 1..=8 =
    /// ldabsb, ldabsh, ldabsw, ldabsdw, ldindb, ldindh, ldindw, ldinddw
    pub ld_before_call: u8,
    /// the VM is created with another program, the calculator is registered, and only then the
    /// program under test is loaded with set_program
    /// 0: program given to new(); 1: another program first, then the calculator, then set_program;
    /// 2: new(None), then the calculator, then set_program;
    /// 3: program given to new(), the calculator, then a set_program that the verifier refuses (a
    /// program with local calls at other places) - the loaded program must run as before
    pub reload: u8,
    /// never-executed filler instructions after every function (between caller and callee): call
    /// displacements beyond 16 bits
    pub pad: u32,
}

pub fn c07_program(c: &C07Case) -> Vec<I> {
    let d = c.depth as usize;
    let v = V64[(c.vsel as usize) % V64.len()];
    if c.recursive {
        // main: r1 = depth ; call f ; exit      f: if r1 == 0 return; r1 -= 1; [frame work]; call f; exit
        let mut p = vec![isa::mov64i(1, d as i32), isa::mov64i(0, 0)];
        p.extend(isa::lddw(6, v));
        p.push(isa::call_local(4)); // f at 8
        p.push(isa::add64r(0, 6));
        p.push(I::new(0x57, 0, 0, 0, 0xffff)); // and64 r0, 0xffff
        p.push(isa::EXIT);
        p.push(isa::EXIT); // padding so that f starts at 9? keep simple: compute below
        // f:
        let f_start = p.len();
        let mut f = vec![I::new(0x15, 1, 0, 0, 0)]; // jeq r1,0,+X (patched)
        f.push(isa::add64i(1, -1));
        f.push(isa::add64i(0, 3));
        if c.body & 1 != 0 {
            f.push(isa::mov64r(6, 1));
            f.push(isa::mov64r(7, 0));
        }
        if c.body & 2 != 0 {
            f.push(isa::stxdw(10, -8, 1));
        }
        let call_at = f.len();
        f.push(isa::call_local(0)); // patched: to f_start
        if c.body & 2 != 0 {
            f.push(isa::ldxdw(2, 10, -8));
            f.push(isa::add64r(0, 2));
        }
        if c.body & 1 != 0 {
            f.push(isa::add64r(0, 6));
            f.push(isa::add64r(0, 7));
        }
        f.push(isa::EXIT);
        f[0].off = (f.len() - 2) as i16; // to the final exit
        f[call_at].imm = -((call_at + 1) as i32);
        // fix main's call displacement
        let call_pc = 4;
        p[call_pc] = isa::call_local((f_start - (call_pc + 1)) as i32);
        p.extend(f);
        return p;
    }
    // chain f0 -> f1 -> ... -> fd ; build each function, then lay out
    let mut funcs: Vec<Vec<I>> = vec![];
    for i in 0..=d {
        let mut f: Vec<I> = vec![];
        let tag = 0x100 + i as i32;
        if i == 0 {
            f.push(isa::mov64i(0, 0));
            f.extend(isa::lddw(4, v));
        } else {
            // r5 was set to the caller's r10 by the caller: frame distance
            f.push(isa::sub64r(5, 10));
            f.push(isa::add64r(0, 5));
        }
        let stack_here = c.body & 16 == 0 || i <= 1;
        if c.body & 1 != 0 {
            if c.body & 32 != 0 {
                f.push(I::new(0xb4, 6, 0, 0, 0x60 + i as i32)); // mov32 imm
                f.push(I::new(0xb4, 7, 0, 0, 0x70 + i as i32));
                f.push(I::new(0xbc, 8, 4, 0, 0)); // mov32 r8, r4
                f.push(I::new(0xb4, 9, 0, 0, 0x90 + i as i32));
                f.push(I::new(0x04, 9, 0, 0, 1)); // add32 r9, 1
            } else if c.body & 64 != 0 {
                // written by wide loads only
                f.extend(isa::lddw(6, 0x60 + i as u64));
                f.extend(isa::lddw(7, 0x7000_0000_0070 + i as u64));
                f.extend(isa::lddw(8, v));
                f.extend(isa::lddw(9, 0xffff_ffff_ffff_ff90 + i as u64));
            } else {
                f.push(isa::mov64i(6, 0x60 + i as i32));
                f.push(isa::mov64i(7, 0x70 + i as i32));
                f.push(isa::mov64r(8, 4));
                f.push(isa::mov64i(9, 0x90 + i as i32));
            }
        }
        if c.body & 2 != 0 && stack_here {
            f.push(isa::stdw(10, -8, tag));
        }
        if c.body & 4 != 0 && stack_here {
            let fs = calc_value(c.calc, 0).min(512) as i16; // lowest slot of a default-size frame
            if fs >= 16 {
                f.push(isa::stdw(10, -fs, tag + 0x1000));
            }
        }
        if c.body & 8 != 0 {
            f.push(isa::mov64i(1, i as i32));
            f.push(isa::mov64i(2, 2));
            f.push(isa::mov64i(3, 3));
            f.push(isa::mov64r(8, 0)); // keep the accumulator across the helper (r0 is the result)
            f.push(isa::mov64r(9, 4));
            f.push(isa::mov64i(5, 5));
            f.push(isa::mov64i(4, 4));
            f.push(isa::call_helper(isaeng::GATHER_ID));
            f.push(I::new(0x57, 0, 0, 0, 0xff)); // and64 r0, 0xff
            f.push(isa::add64r(0, 8));
            f.push(isa::mov64r(4, 9));
        }
        if i < d {
            f.push(isa::mov64r(5, 10));
            f.push(isa::mov64r(3, 4)); // r3 passes through the call: checked by the callee's use of r4/r3
            if c.ld_before_call != 0 {
                f.push(isa::mov64r(9, 0)); // accumulator saved in a callee-saved register
                let opc = [0x30u8, 0x28, 0x20, 0x38, 0x50, 0x48, 0x40, 0x58][(c.ld_before_call - 1) as usize];
                if opc & 0xe0 == 0x40 {
                    f.push(isa::mov64i(2, 1));
                    f.push(I::new(opc, 0, 2, 0, 0)); // ldind* r2, 0 -> r0
                } else {
                    f.push(I::new(opc, 0, 0, 0, 0)); // ldabs* 0 -> r0
                }
            }
            f.push(isa::call_local(0)); // patched
            if c.ld_before_call != 0 {
                f.push(isa::add64r(0, 9));
            }
            // after return: r0..r5 are as the callee left them; fold callee-saved and own stack
            f.push(isa::add64r(0, 3));
            if c.twice {
                f.push(isa::mov64r(5, 10));
                f.push(isa::call_local(0)); // patched
                f.push(isa::add64r(0, 3));
            }
        }
        if c.body & 1 != 0 {
            f.push(isa::add64r(0, 6));
            f.push(isa::add64r(0, 7));
            f.push(isa::add64r(0, 8));
            f.push(isa::add64r(0, 9));
        }
        if c.body & 2 != 0 && stack_here {
            f.push(isa::ldxdw(2, 10, -8));
            f.push(isa::add64r(0, 2));
        }
        if i == 0 {
            f.push(I::new(0x57, 0, 0, 0, 0x7fffffff)); // and64: keep the result an easy-to-read Int
        } else {
            // r0-r5 pass through the return: the caller folds the r3 this callee leaves
            f.push(isa::mov64i(3, 0x30 + i as i32));
        }
        f.push(isa::EXIT);
        funcs.push(f);
    }
    // layout: f0 first; then f1..fd or fd..f1
    let mut order: Vec<usize> = (1..=d).collect();
    if c.reversed {
        order.reverse();
    }
    let mut start = vec![0usize; d + 1];
    let mut pos = funcs[0].len();
    for i in &order {
        start[*i] = pos;
        pos += funcs[*i].len();
    }
    // padding: filler after every function (never executed)
    if c.pad > 0 {
        for f in funcs.iter_mut() {
            for _ in 0..c.pad {
                f.push(isa::mov64i(0, 0x7a7a));
            }
        }
        let mut pos = funcs[0].len();
        for i in &order {
            start[*i] = pos;
            pos += funcs[*i].len();
        }
    }
    let mut prog: Vec<I> = vec![];
    let mut placed: Vec<usize> = vec![0];
    placed.extend(order.iter());
    for i in placed {
        let base = prog.len();
        debug_assert_eq!(base, start[i]);
        for (k, insn) in funcs[i].iter().enumerate() {
            let mut x = *insn;
            if x.opc == 0x85 && x.src == 1 {
                x.imm = start[i + 1] as i32 - (base + k + 1) as i32;
            }
            prog.push(x);
        }
    }
    if c.pad > 0 {
        prog.push(isa::EXIT); // the filler after the last function must not be the program's end
    }
    prog
}

fn c07_check(s: &mut Sink, eng: Eng, c: &C07Case) {
    let prog = c07_program(c);
    let bytes = isa::enc(&prog);
    let rp = json!({"kind":"local-call","eng":eng.name(),"depth":c.depth,"reversed":c.reversed,"body":c.body,"recursive":c.recursive,"vsel":c.vsel,"twice":c.twice,"ld_before_call":c.ld_before_call,"reload":c.reload,"pad":c.pad,
                    "calc": match c.calc { Calc::None => json!("none"), Calc::Const(v) => json!(v), Calc::PcDep => json!("pc"), Calc::ProgDep => json!("prog") }});
    let class = format!("{}{}{}", if c.recursive { "recursion" } else if c.twice { "tree" } else { "chain" }, if c.reversed { "-backward" } else { "" }, match c.calc { Calc::None => "", Calc::PcDep => "+calc(pc)", Calc::ProgDep => "+calc(prog)", Calc::Const(_) => "+calc" });
    s.count("evaluations", 1);
    s.count("states", 1);
    let kind = if c.ld_before_call != 0 { VmKind::Raw } else { VmKind::NoData };
    let packet: Vec<u8> = if c.ld_before_call != 0 { vec![7, 1, 2, 3, 4, 5, 6, 7, 8, 9, 10, 11, 12, 13, 14, 15] } else { vec![] };
    let pbuf = Buf::new(packet.len(), 0);
    pbuf.fill(&packet);
    let mut m = isaeng::model_for(&prog, kind, &packet, &[], true);
    let calc = c.calc;
    let n_insns = prog.len();
    if calc != Calc::None {
        m.usage_of = Some(Box::new(move |pc| calc_value_n(calc, pc, n_insns)));
    }
    m.max_steps = 20_000;
    let end = m.run();
    s.count("transitions", m.steps);
    s.outcome(match &end {
        End::Ret(Val::Int(_)) => "ret",
        End::Ret(_) => "out-of-claim",
        End::Err(refmodel::ErrKind::CallDepth) => "model-err:call-depth",
        End::Err(refmodel::ErrKind::OutOfBounds) => "model-err:stack-out-of-bounds",
        End::Err(_) => "model-err",
        End::OutOfClaim(_) => "out-of-claim",
        End::NoTermination => "no-termination",
        End::Malformed(_) => "model-malformed",
    }, 1);
    if let End::Malformed(w) = &end {
        s.violation("harness/local-call/malformed-template", w.to_string(), rp.clone());
        return;
    }
    let other = isa::enc(&[isa::mov64i(0, 0), isa::EXIT]);
    // a program the default verifier refuses only at its end (no final exit), with local calls whose
    // targets lie elsewhere than the loaded program's
    let refused = isa::enc(&[isa::call_local(3), isa::call_local(1), isa::EXIT, isa::call_local(1), isa::mov64i(0, 1), isa::EXIT, isa::mov64i(0, 2)]);
    let mut vmx = match AnyVm::new(kind, match c.reload { 0 | 3 => Some(&bytes[..]), 1 => Some(&other[..]), _ => None }) {
        Ok(v) => v,
        Err(e) => {
            s.violation(&format!("verifier/{class}/rejects-template"), e, rp.clone());
            return;
        }
    };
    vmx.register_helper(isaeng::GATHER_ID, isaeng::gather_helper).unwrap();
    // a calculator that asks for a frame larger than the whole 512-byte stack: C07 describes what a
    // *registered* calculator does; whether such a one can be registered (or a program loaded under
    // it) is not specified - a refusal is then not reported
    let oversized = calc != Calc::None && {
        let mut entries: Vec<usize> = vec![0];
        for (k, i) in prog.iter().enumerate() {
            if i.opc == 0x85 && i.src == 1 {
                let t = k as i64 + 1 + i.imm as i64;
                if t >= 0 && (t as usize) < prog.len() {
                    entries.push(t as usize);
                }
            }
        }
        entries.iter().any(|pc| calc_value_n(calc, *pc, n_insns) > 512)
    };
    if calc != Calc::None {
        match catch(|| vmx.set_calc(calc_fn, Box::new(calc))) {
            Ok(Ok(())) => {}
            Ok(Err(_)) if oversized => {
                s.outcome("calculator-with-oversized-frames-refused", 1);
                return;
            }
            Ok(Err(e)) => {
                s.violation(&format!("interp/{class}/set-calculator-err"), e, rp.clone());
                return;
            }
            Err(p) => {
                s.violation(&format!("interp/{class}/set-calculator-{}", panic_class(&p)), p, rp.clone());
                return;
            }
        }
    }
    if c.reload == 3 {
        if vmx.set_program(&refused, (0, 0)).is_ok() {
            s.violation(&format!("verifier/{class}/accepts-ill-formed"), "a program without a final exit was accepted by set_program".into(), rp.clone());
            return;
        }
    } else if c.reload != 0 {
        if let Err(e) = vmx.set_program(&bytes, (0, 0)) {
            if oversized {
                s.outcome("program-refused-under-a-calculator-with-oversized-frames", 1);
            } else {
                s.violation(&format!("verifier/{class}/rejects-template"), e, rp.clone());
            }
            return;
        }
    }
    let mem = if c.ld_before_call != 0 { pbuf.raw() } else { vm::empty_raw() };
    rbpf::verif_hooks::set_insn_budget(Some(m.steps * 2 + 1000));
    let io = Obs { out: vmx.exec_out(Eng::Interp, mem, vm::empty_raw()), packet: pbuf.bytes().to_vec(), mbuff: vec![] };
    rbpf::verif_hooks::set_insn_budget(None);
    if eng == Eng::Interp {
        s.count("traces_validated_against_impl", 1);
        if m.max_depth > 0 {
            s.count("distinct_nontrivial", 1);
        }
        if let Some((sym, det)) = cmp_with_model(&end, &m, &io) {
            s.violation(&format!("interp/{class}/{sym}"), format!("{det} (depth {}, body {:#06b})", c.depth, c.body), rp.clone());
        }
        s.sample(&class, || json!({"descriptor": rp, "program": isa::listing(&prog)}));
        return;
    }
    // JIT: the interpreter is the oracle where it returns a value the model calls defined
    if !matches!(end, End::Ret(Val::Int(_))) || !matches!(io.out, Out::Ok(_)) {
        s.outcome("not-compared(interpreter-not-ok-or-undefined)", 1);
        return;
    }
    match catch(|| vmx.compile(eng)) {
        Ok(Ok(())) => {}
        Ok(Err(e)) => {
            s.violation(&format!("{}/{class}/compile-err", eng.name()), e, rp.clone());
            return;
        }
        Err(p) => {
            s.violation(&format!("{}/{class}/compile-{}", eng.name(), panic_class(&p)), p, rp.clone());
            return;
        }
    }
    pbuf.fill(&packet);
    let o = Obs { out: vmx.exec_out(eng, mem, vm::empty_raw()), packet: pbuf.bytes().to_vec(), mbuff: vec![] };
    s.count("traces_validated_against_impl", 1);
    s.count("distinct_nontrivial", 1);
    if let Some((sym, det)) = cmp_with_interp(&m, &io, &o) {
        // Deviation model of the recorded finding: the JIT does not lower r10 on a local call
        // (frame distance 0: the callee's frame aliases the caller's), whatever the calculator.
        let mut q = isaeng::model_for(&prog, kind, &packet, &[], true);
        q.usage_of = Some(Box::new(|_| 0));
        q.max_steps = 20_000;
        let qend = q.run();
        if matches!(qend, End::Ret(Val::Int(_))) && cmp_with_model(&qend, &q, &o).is_none() {
            s.violation(&format!("{}/local-call/r10-not-lowered", eng.name()), format!("{det}: exactly what a callee frame at distance 0 from its caller gives ({class}, depth {}, body {:#06b})", c.depth, c.body), rp.clone());
        } else {
            s.violation(&format!("{}/{class}/{sym}", eng.name()), format!("{det} (depth {}, body {:#06b})", c.depth, c.body), rp.clone());
        }
    }
}

fn c07_cases(thorough: bool) -> Vec<C07Case> {
    let mut v = vec![];
    let calcs: Vec<Calc> = if thorough {
        vec![Calc::None, Calc::Const(0), Calc::Const(1), Calc::Const(8), Calc::Const(13), Calc::Const(60), Calc::Const(64), Calc::Const(255), Calc::Const(256), Calc::Const(511), Calc::Const(512), Calc::Const(65535), Calc::PcDep, Calc::ProgDep]
    } else {
        vec![Calc::None, Calc::Const(0), Calc::Const(13), Calc::Const(60), Calc::Const(64), Calc::Const(512), Calc::PcDep, Calc::ProgDep]
    };
    for depth in 0..=9u8 {
        for reversed in [false, true] {
            for body in 0..16u8 {
                for calc in &calcs {
                    let vs: Vec<u8> = if thorough { (0..31).collect() } else { vec![1, 22, 28] };
                    for vsel in vs {
                        v.push(C07Case { depth, reversed, body, calc: *calc, recursive: false, vsel, twice: false, ld_before_call: 0, reload: 0, pad: 0 });
                        if depth >= 1 && depth <= 4 && (thorough || vsel == 1) {
                            v.push(C07Case { depth, reversed, body, calc: *calc, recursive: false, vsel, twice: true, ld_before_call: 0, reload: 0, pad: 0 });
                        }
                        if depth >= 1 && (thorough || vsel == 1) {
                            // loaded with set_program after the calculator was registered
                            v.push(C07Case { depth, reversed, body, calc: *calc, recursive: false, vsel, twice: false, ld_before_call: 0, reload: 1, pad: 0 });
                            v.push(C07Case { depth, reversed, body, calc: *calc, recursive: false, vsel, twice: false, ld_before_call: 0, reload: 2, pad: 0 });
                            v.push(C07Case { depth, reversed, body, calc: *calc, recursive: false, vsel, twice: false, ld_before_call: 0, reload: 3, pad: 0 });
                            // functions 33,000 / 70,000 instructions apart (16-bit displacement limits)
                            if depth <= 3 && body & 8 == 0 && matches!(calc, Calc::None | Calc::Const(64) | Calc::PcDep) {
                                v.push(C07Case { depth, reversed, body, calc: *calc, recursive: false, vsel, twice: false, ld_before_call: 0, reload: 0, pad: if body & 1 == 0 { 33_000 } else { 70_000 } });
                            }
                            // a packet load right before every call (bodies that leave r9 free)
                            if body & 9 == 0 {
                                for ld in 1..=8u8 {
                                    v.push(C07Case { depth, reversed, body, calc: *calc, recursive: false, vsel, twice: depth <= 3, ld_before_call: ld, reload: 0, pad: 0 });
                                }
                            }
                            // deep chains whose inner frames are never touched; callee-saved registers
                            // written by 32-bit instructions only
                            if body & 12 == 0 && body & 3 != 0 {
                                v.push(C07Case { depth, reversed, body: body | 16, calc: *calc, recursive: false, vsel, twice: false, ld_before_call: 0, reload: 0, pad: 0 });
                                v.push(C07Case { depth, reversed, body: body | 16, calc: *calc, recursive: false, vsel, twice: depth <= 3, ld_before_call: 0, reload: 0, pad: 0 });
                            }
                            if body & 8 == 0 && body & 1 != 0 {
                                v.push(C07Case { depth, reversed, body: body | 32, calc: *calc, recursive: false, vsel, twice: depth <= 3, ld_before_call: 0, reload: 0, pad: 0 });
                                v.push(C07Case { depth, reversed, body: body | 64, calc: *calc, recursive: false, vsel, twice: depth <= 3, ld_before_call: 0, reload: 0, pad: 0 });
                            }
                        }
                    }
                }
            }
        }
        for body in 0..4u8 {
            for calc in &calcs {
                v.push(C07Case { depth, reversed: true, body, calc: *calc, recursive: true, vsel: 5, twice: false, ld_before_call: 0, reload: 0, pad: 0 });
            }
        }
    }
    v
}

pub fn run_c07(s: &mut Sink) {
    run_c07_on(s, &[Eng::Interp, Eng::Jit], 0, true);
}

/// The call-graph corpus on the JIT only, as part of C03 (group indices from `g0`).
pub fn run_c07_jit(s: &mut Sink, g0: u64) {
    run_c07_on(s, &[Eng::Jit], g0, false);
}

fn run_c07_on(s: &mut Sink, engines: &[Eng], g0: u64, with_meta: bool) {
    let thorough = s.tier == Tier::Thorough;
    let cases = c07_cases(thorough);
    if with_meta {
    s.meta.insert("alphabet".into(), json!({
        "call_graphs": "chains main -> f1 -> ... -> fd for d = 0..9 laid out forward or backward (negative displacements); binary call trees (every function calls its callee twice) of depth 1..4; self-recursion bounded by a counter in r1 for depth 0..9",
        "bodies": "16 combinations of {set r6-r9 in every function, stack tag at [r10-8] written and read back after the call, lowest slot of the frame touched, helper call inside every function}",
        "calculators": if thorough {"none, const 0, 1, 8, 13, 60, 64, 255, 256, 511, 512, 65535, pc-dependent 16+8*pc, program-dependent 16+8*((len+pc)%32)"} else {"none, const 0, 13, 60, 64, 512, pc-dependent, program-dependent"},
        "variants": "program loaded with set_program after another program and the calculator, or after new(None) and the calculator (reload 1, 2); a packet load (ldabsb) immediately before every call, on a raw VM",
        "register_contents": if thorough {"all 31 V64 values"} else {"3 V64 values"},
        "engines": ["interp (vs reference machine)", "jit (vs interpreter where defined)"],
    }));
    s.meta.insert("bound".into(), json!({"max_depth": 9, "programs": cases.len()}));
    s.meta.insert("rule".into(), json!("case = (call graph, layout, body bits, calculator, register value, engine); non-trivial = at least one local call executed"));
    } else {
        s.meta.insert("call_graphs".into(), json!({"programs": cases.len(), "what": "the call-graph corpus of C07 (chains, trees, recursion; bodies; calculators), JIT against the interpreter"}));
    }
    let mut g = g0;
    for eng in engines.iter().copied() {
        for chunk in cases.chunks(32) {
            let idx = g;
            g += 1;
            if !s.take(idx) {
                continue;
            }
            if s.expired() {
                s.cut("call graphs");
                return;
            }
            for c in chunk {
                let cc = *c;
                let rp = json!({"kind":"local-call","eng":eng.name(),"depth":c.depth,"reversed":c.reversed,"body":c.body,"recursive":c.recursive,"vsel":c.vsel,"twice":c.twice,"ld_before_call":c.ld_before_call,"reload":c.reload,"pad":c.pad,
                    "calc": match c.calc { Calc::None => json!("none"), Calc::Const(v) => json!(v), Calc::PcDep => json!("pc"), Calc::ProgDep => json!("prog") }});
                s.mark(idx, &format!("{}/local-call", eng.name()), &rp);
                run_group(s, eng, "local-call", &rp, move |cs| c07_check(cs, eng, &cc));
            }
        }
    }
    s.done("call graphs");
}

pub fn replay_c07(v: &Value) -> Vec<String> {
    let eng = Eng::parse(v["eng"].as_str().unwrap());
    let calc = match &v["calc"] {
        Value::String(x) if x == "none" => Calc::None,
        Value::String(x) if x == "prog" => Calc::ProgDep,
        Value::String(_) => Calc::PcDep,
        x => Calc::Const(x.as_u64().unwrap() as u16),
    };
    let c = C07Case { depth: v["depth"].as_u64().unwrap() as u8, reversed: v["reversed"].as_bool().unwrap(), body: v["body"].as_u64().unwrap() as u8, calc, recursive: v["recursive"].as_bool().unwrap(), vsel: v["vsel"].as_u64().unwrap() as u8, twice: v["twice"].as_bool().unwrap_or(false), ld_before_call: v["ld_before_call"].as_u64().unwrap_or(if v["ld_before_call"].as_bool().unwrap_or(false) { 1 } else { 0 }) as u8, reload: v["reload"].as_u64().unwrap_or(if v["reload"].as_bool().unwrap_or(false) { 1 } else { 0 }) as u8, pad: v["pad"].as_u64().unwrap_or(0) as u32 };
    let mut s = Sink::new("replay", Tier::Quick, 0, 1, None, None, 3600);
    let rp = v.clone();
    run_group(&mut s, eng, "local-call", &rp, move |cs| c07_check(cs, eng, &c));
    let r = s.finish();
    r["violations"].as_array().unwrap().iter().map(|x| format!("{}: {}", x["sig"].as_str().unwrap(), x["detail"].as_str().unwrap())).collect()
}

#[allow(dead_code)]
fn _unused(_: &Machine) {}
