//! Uniform access to the four rbpf VM kinds and three execution engines, plus guard-page buffers.

pub use crate::refmodel::VmKind;
use crate::common::catch;
use rbpf::{EbpfVmFixedMbuff, EbpfVmMbuff, EbpfVmNoData, EbpfVmRaw};

#[derive(Clone, Copy, PartialEq, Eq, Debug, Hash)]
pub enum Eng {
    Interp,
    Jit,
    Cl,
}

impl Eng {
    pub fn name(self) -> &'static str {
        match self {
            Eng::Interp => "interp",
            Eng::Jit => "jit",
            Eng::Cl => "cranelift",
        }
    }
    pub fn parse(s: &str) -> Eng {
        match s {
            "interp" => Eng::Interp,
            "jit" => Eng::Jit,
            _ => Eng::Cl,
        }
    }
}

pub fn kind_name(k: VmKind) -> String {
    match k {
        VmKind::Raw => "raw".into(),
        VmKind::Mbuff => "mbuff".into(),
        VmKind::NoData => "nodata".into(),
        VmKind::Fixed(a, b) => format!("fixed:{a}:{b}"),
    }
}

pub fn parse_kind(s: &str) -> VmKind {
    match s {
        "raw" => VmKind::Raw,
        "mbuff" => VmKind::Mbuff,
        "nodata" => VmKind::NoData,
        _ => {
            let p: Vec<&str> = s.split(':').collect();
            VmKind::Fixed(p[1].parse().unwrap(), p[2].parse().unwrap())
        }
    }
}

#[derive(Clone, Debug, PartialEq, Eq)]
pub enum Out {
    Ok(u64),
    Err(String),
    Panic(String),
}

impl Out {
    pub fn class(&self) -> &'static str {
        match self {
            Out::Ok(_) => "ok",
            Out::Err(_) => "err",
            Out::Panic(_) => "panic",
        }
    }
    pub fn is_budget(&self) -> bool {
        matches!(self, Out::Err(m) if m.contains("[verif] instruction budget"))
    }
}

pub enum AnyVm<'a> {
    Raw(EbpfVmRaw<'a>),
    Mbuff(EbpfVmMbuff<'a>),
    Fixed(EbpfVmFixedMbuff<'a>),
    NoData(EbpfVmNoData<'a>),
}

/// Error text with run-dependent addresses removed (ASLR must not reach compared output).
pub fn scrub(msg: &str) -> String {
    let b = msg.as_bytes();
    let mut out = String::with_capacity(msg.len());
    let mut i = 0;
    while i < b.len() {
        if b[i] == b'0' && i + 1 < b.len() && b[i + 1] == b'x' {
            let mut j = i + 2;
            while j < b.len() && b[j].is_ascii_hexdigit() {
                j += 1;
            }
            if j - (i + 2) >= 7 {
                out.push_str("0xADDR");
            } else {
                out.push_str(&msg[i..j]);
            }
            i = j;
        } else {
            out.push(b[i] as char);
            i += 1;
        }
    }
    out
}

fn es<T>(r: Result<T, std::io::Error>) -> Result<T, String> {
    r.map_err(|e| scrub(&e.to_string()))
}

// ------------------------------------------------------------------------------------------
// "Reload" construction mode. Anything a VM derives from its program (compiled code, frame-size
// tables, call tables, flags) has to be rebuilt when another program is loaded. With the mode on,
// `AnyVm::new(kind, Some(p))` creates the VM with a decoy program and then loads `p` with
// `set_program`, so that every program corpus can also be run on a VM object that held another
// program before. The decoys: 1 = two instructions, no stack, no call; 2 = 64 calls of helper 1;
// 3 = stack stores, a local call, a wide load, a packet load.

thread_local! {
    static RELOAD: std::cell::Cell<u8> = const { std::cell::Cell::new(0) };
}

pub fn set_reload(k: u8) {
    RELOAD.with(|r| r.set(k));
}

pub fn reload_mode() -> u8 {
    RELOAD.with(|r| r.get())
}

pub fn decoy(k: u8) -> &'static [u8] {
    use std::sync::OnceLock;
    static D: OnceLock<[Vec<u8>; 3]> = OnceLock::new();
    let d = D.get_or_init(|| {
        use crate::isa;
        let d1 = isa::enc(&[isa::mov64i(0, 0), isa::EXIT]);
        let mut v = vec![];
        for _ in 0..64 {
            v.push(isa::I::new(0x85, 0, 0, 0, 1));
        }
        v.push(isa::EXIT);
        let d2 = isa::enc(&v);
        let mut w = vec![isa::mov64i(1, 7), isa::stxdw(10, -8, 1), isa::stxdw(10, -512, 1), isa::call_local(3)];
        w.extend(isa::lddw(0, 0x1122_3344_5566_7788));
        w.push(isa::EXIT);
        w.push(isa::I::new(0x30, 0, 0, 0, 0)); // ldabsb 0
        w.push(isa::mov64i(6, 1));
        w.push(isa::EXIT);
        let d3 = isa::enc(&w);
        [d1, d2, d3]
    });
    &d[(k as usize - 1) % 3]
}

impl<'a> AnyVm<'a> {
    pub fn new(kind: VmKind, prog: Option<&'a [u8]>) -> Result<AnyVm<'a>, String> {
        let k = reload_mode();
        if let (Some(p), true) = (prog, k > 0) {
            let mut v = Self::new_plain(kind, Some(decoy(k)))?;
            let offs = match kind {
                VmKind::Fixed(a, b) => (a, b),
                _ => (0, 0),
            };
            v.set_program(p, offs)?;
            return Ok(v);
        }
        Self::new_plain(kind, prog)
    }
    pub fn new_plain(kind: VmKind, prog: Option<&'a [u8]>) -> Result<AnyVm<'a>, String> {
        Ok(match kind {
            VmKind::Raw => AnyVm::Raw(es(EbpfVmRaw::new(prog))?),
            VmKind::Mbuff => AnyVm::Mbuff(es(EbpfVmMbuff::new(prog))?),
            VmKind::Fixed(a, b) => AnyVm::Fixed(es(EbpfVmFixedMbuff::new(prog, a, b))?),
            VmKind::NoData => AnyVm::NoData(es(EbpfVmNoData::new(prog))?),
        })
    }
    pub fn set_program(&mut self, prog: &'a [u8], offs: (usize, usize)) -> Result<(), String> {
        match self {
            AnyVm::Raw(v) => es(v.set_program(prog)),
            AnyVm::Mbuff(v) => es(v.set_program(prog)),
            AnyVm::Fixed(v) => es(v.set_program(prog, offs.0, offs.1)),
            AnyVm::NoData(v) => es(v.set_program(prog)),
        }
    }
    pub fn set_verifier(&mut self, f: rbpf::Verifier) -> Result<(), String> {
        match self {
            AnyVm::Raw(v) => es(v.set_verifier(f)),
            AnyVm::Mbuff(v) => es(v.set_verifier(f)),
            AnyVm::Fixed(v) => es(v.set_verifier(f)),
            AnyVm::NoData(v) => es(v.set_verifier(f)),
        }
    }
    pub fn register_helper(&mut self, key: u32, f: rbpf::Helper) -> Result<(), String> {
        match self {
            AnyVm::Raw(v) => es(v.register_helper(key, f)),
            AnyVm::Mbuff(v) => es(v.register_helper(key, f)),
            AnyVm::Fixed(v) => es(v.register_helper(key, f)),
            AnyVm::NoData(v) => es(v.register_helper(key, f)),
        }
    }
    pub fn register_allowed_memory(&mut self, r: std::ops::Range<u64>) {
        match self {
            AnyVm::Raw(v) => v.register_allowed_memory(r),
            AnyVm::Mbuff(v) => v.register_allowed_memory(r),
            AnyVm::Fixed(v) => v.register_allowed_memory(r),
            AnyVm::NoData(v) => v.register_allowed_memory(r),
        }
    }
    pub fn set_calc(&mut self, f: rbpf::StackUsageCalculator, data: Box<dyn std::any::Any>) -> Result<(), String> {
        match self {
            AnyVm::Raw(v) => es(v.set_stack_usage_calculator(f, data)),
            AnyVm::Mbuff(v) => es(v.set_stack_usage_calculator(f, data)),
            AnyVm::Fixed(v) => es(v.set_stack_usage_calculator(f, data)),
            AnyVm::NoData(v) => es(v.set_stack_usage_calculator(f, data)),
        }
    }
    /// Compile for an engine (no-op for the interpreter).
    pub fn compile(&mut self, eng: Eng) -> Result<(), String> {
        match (eng, self) {
            (Eng::Interp, _) => Ok(()),
            (Eng::Jit, AnyVm::Raw(v)) => es(v.jit_compile()),
            (Eng::Jit, AnyVm::Mbuff(v)) => es(v.jit_compile()),
            (Eng::Jit, AnyVm::Fixed(v)) => es(v.jit_compile()),
            (Eng::Jit, AnyVm::NoData(v)) => es(v.jit_compile()),
            (Eng::Cl, AnyVm::Raw(v)) => es(v.cranelift_compile()),
            (Eng::Cl, AnyVm::Mbuff(v)) => es(v.cranelift_compile()),
            (Eng::Cl, AnyVm::Fixed(v)) => es(v.cranelift_compile()),
            (Eng::Cl, AnyVm::NoData(v)) => es(v.cranelift_compile()),
        }
    }
    /// Execute. `mem`/`mbuff` are raw (pointer, length) pairs owned by the caller.
    pub fn exec(&mut self, eng: Eng, mem: (*mut u8, usize), mbuff: (*mut u8, usize)) -> Result<u64, String> {
        unsafe {
            let m: &'a mut [u8] = std::slice::from_raw_parts_mut(mem.0, mem.1);
            let mb: &'a mut [u8] = std::slice::from_raw_parts_mut(mbuff.0, mbuff.1);
            match (eng, self) {
                (Eng::Interp, AnyVm::Raw(v)) => es(v.execute_program(m)),
                (Eng::Interp, AnyVm::Mbuff(v)) => es(v.execute_program(m, mb)),
                (Eng::Interp, AnyVm::Fixed(v)) => es(v.execute_program(m)),
                (Eng::Interp, AnyVm::NoData(v)) => es(v.execute_program()),
                (Eng::Jit, AnyVm::Raw(v)) => es(v.execute_program_jit(m)),
                (Eng::Jit, AnyVm::Mbuff(v)) => es(v.execute_program_jit(m, mb)),
                (Eng::Jit, AnyVm::Fixed(v)) => es(v.execute_program_jit(m)),
                (Eng::Jit, AnyVm::NoData(v)) => es(v.execute_program_jit()),
                (Eng::Cl, AnyVm::Raw(v)) => es(v.execute_program_cranelift(m)),
                (Eng::Cl, AnyVm::Mbuff(v)) => es(v.execute_program_cranelift(m, mb)),
                (Eng::Cl, AnyVm::Fixed(v)) => es(v.execute_program_cranelift(m)),
                (Eng::Cl, AnyVm::NoData(v)) => es(v.execute_program_cranelift()),
            }
        }
    }
    pub fn exec_out(&mut self, eng: Eng, mem: (*mut u8, usize), mbuff: (*mut u8, usize)) -> Out {
        match catch(|| self.exec(eng, mem, mbuff)) {
            Ok(Ok(v)) => Out::Ok(v),
            Ok(Err(e)) => Out::Err(e),
            Err(p) => Out::Panic(p),
        }
    }
}

// ------------------------------------------------------------------------------------------
// Guard-page buffers

const PAGE: usize = 4096;
pub const CANARY: u8 = 0xC5;
pub const CANARY_MIN: usize = 64;

/// `PROT_NONE | canary bytes | buffer | 64 canary bytes | PROT_NONE`, MAP_SHARED so that a forked
/// child's effects are visible to the parent.
pub struct Buf {
    map: *mut u8,
    map_len: usize,
    rw: *mut u8,
    rw_len: usize,
    pub ptr: *mut u8,
    pub len: usize,
}

impl Buf {
    /// `misalign`: required value of (start address % 8).
    pub fn new(len: usize, misalign: usize) -> Buf {
        let rw_len = (len + 2 * CANARY_MIN + 8 + PAGE - 1) / PAGE * PAGE;
        let map_len = rw_len + 2 * PAGE;
        unsafe {
            let map = libc::mmap(std::ptr::null_mut(), map_len, libc::PROT_NONE, libc::MAP_SHARED | libc::MAP_ANONYMOUS, -1, 0);
            assert!(map != libc::MAP_FAILED, "mmap failed");
            let map = map as *mut u8;
            let rw = map.add(PAGE);
            assert_eq!(libc::mprotect(rw as *mut libc::c_void, rw_len, libc::PROT_READ | libc::PROT_WRITE), 0);
            let mut start = rw_len - CANARY_MIN - len;
            // lower start until (addr % 8) == misalign
            while (rw as usize + start) % 8 != misalign % 8 {
                start -= 1;
            }
            let b = Buf { map, map_len, rw, rw_len, ptr: rw.add(start), len };
            b.reset_canary();
            b
        }
    }
    pub fn reset_canary(&self) {
        unsafe {
            let start = self.ptr as usize - self.rw as usize;
            std::ptr::write_bytes(self.rw, CANARY, start);
            std::ptr::write_bytes(self.ptr.add(self.len), CANARY, self.rw_len - start - self.len);
        }
    }
    pub fn canary_ok(&self) -> bool {
        unsafe {
            let start = self.ptr as usize - self.rw as usize;
            let lead = std::slice::from_raw_parts(self.rw, start);
            let trail = std::slice::from_raw_parts(self.ptr.add(self.len), self.rw_len - start - self.len);
            lead.iter().all(|b| *b == CANARY) && trail.iter().all(|b| *b == CANARY)
        }
    }
    pub fn fill(&self, data: &[u8]) {
        assert_eq!(data.len(), self.len);
        unsafe { std::ptr::copy_nonoverlapping(data.as_ptr(), self.ptr, self.len) }
    }
    pub fn bytes(&self) -> &[u8] {
        unsafe { std::slice::from_raw_parts(self.ptr, self.len) }
    }
    pub fn raw(&self) -> (*mut u8, usize) {
        (self.ptr, self.len)
    }
    pub fn addr(&self) -> u64 {
        self.ptr as u64
    }
}

impl Drop for Buf {
    fn drop(&mut self) {
        unsafe {
            libc::munmap(self.map as *mut libc::c_void, self.map_len);
        }
    }
}

pub fn empty_raw() -> (*mut u8, usize) {
    (std::ptr::NonNull::<u8>::dangling().as_ptr(), 0)
}
