//! The harness's own description of the eBPF instruction set: opcode table, field usage,
//! mnemonics, encoder. Written from the ISA (class | size | mode, class | source | op) and the
//! property statements; it shares nothing with rbpf's `ebpf.rs` and is one of the things the
//! checks cross-examine.

#[derive(Clone, Copy, Debug, PartialEq, Eq, Hash, PartialOrd, Ord)]
pub struct I {
    pub opc: u8,
    pub dst: u8,
    pub src: u8,
    pub off: i16,
    pub imm: i32,
}

impl I {
    pub const fn new(opc: u8, dst: u8, src: u8, off: i16, imm: i32) -> I {
        I { opc, dst, src, off, imm }
    }
    pub fn bytes(&self) -> [u8; 8] {
        let o = self.off as u16;
        let m = self.imm as u32;
        [
            self.opc,
            ((self.src & 15) << 4) | (self.dst & 15),
            (o & 0xff) as u8,
            (o >> 8) as u8,
            (m & 0xff) as u8,
            ((m >> 8) & 0xff) as u8,
            ((m >> 16) & 0xff) as u8,
            (m >> 24) as u8,
        ]
    }
    pub fn decode(b: &[u8]) -> I {
        I {
            opc: b[0],
            dst: b[1] & 15,
            src: b[1] >> 4,
            off: (b[2] as u16 | (b[3] as u16) << 8) as i16,
            imm: (b[4] as u32 | (b[5] as u32) << 8 | (b[6] as u32) << 16 | (b[7] as u32) << 24) as i32,
        }
    }
}

pub fn enc(p: &[I]) -> Vec<u8> {
    let mut v = Vec::with_capacity(p.len() * 8);
    for i in p {
        v.extend_from_slice(&i.bytes());
    }
    v
}

pub fn dec(b: &[u8]) -> Vec<I> {
    b.chunks_exact(8).map(I::decode).collect()
}

#[derive(Clone, Copy, Debug, PartialEq, Eq, Hash)]
pub enum AluOp {
    Add,
    Sub,
    Mul,
    Div,
    Or,
    And,
    Lsh,
    Rsh,
    Mod,
    Xor,
    Mov,
    Arsh,
}

#[derive(Clone, Copy, Debug, PartialEq, Eq, Hash)]
pub enum Cond {
    Eq,
    Gt,
    Ge,
    Set,
    Ne,
    Sgt,
    Sge,
    Lt,
    Le,
    Slt,
    Sle,
}

#[derive(Clone, Copy, Debug, PartialEq, Eq, Hash)]
pub enum Kind {
    LdAbs(u8),
    LdInd(u8),
    LdDw,
    Ldx(u8),
    St(u8),
    Stx(u8),
    Xadd(u8),
    Alu { op: AluOp, is64: bool, reg: bool },
    Neg { is64: bool },
    /// byte swap: to_be = true for `be`, false for `le`
    End { to_be: bool },
    Ja,
    Jcc { cond: Cond, is32: bool, reg: bool },
    Call,
    Exit,
}

fn size_of_bits(sz: u8) -> u8 {
    match sz {
        0x00 => 4,
        0x08 => 2,
        0x10 => 1,
        _ => 8,
    }
}

/// The supported opcodes. Anything else (including 0x8d tail call and 0x00) is not an
/// instruction the default verifier may accept.
pub fn kind(opc: u8) -> Option<Kind> {
    let cls = opc & 0x07;
    match cls {
        0x00 => {
            // LD
            let sz = opc & 0x18;
            match opc & 0xe0 {
                0x20 => Some(Kind::LdAbs(size_of_bits(sz))),
                0x40 => Some(Kind::LdInd(size_of_bits(sz))),
                0x00 if sz == 0x18 => Some(Kind::LdDw),
                _ => None,
            }
        }
        0x01 => {
            if opc & 0xe0 == 0x60 {
                Some(Kind::Ldx(size_of_bits(opc & 0x18)))
            } else {
                None
            }
        }
        0x02 => {
            if opc & 0xe0 == 0x60 {
                Some(Kind::St(size_of_bits(opc & 0x18)))
            } else {
                None
            }
        }
        0x03 => match opc & 0xe0 {
            0x60 => Some(Kind::Stx(size_of_bits(opc & 0x18))),
            0xc0 => {
                let sz = opc & 0x18;
                if sz == 0x00 || sz == 0x18 {
                    Some(Kind::Xadd(size_of_bits(sz)))
                } else {
                    None
                }
            }
            _ => None,
        },
        0x04 | 0x07 => {
            let is64 = cls == 0x07;
            let reg = opc & 0x08 != 0;
            let op = match opc >> 4 {
                0x0 => AluOp::Add,
                0x1 => AluOp::Sub,
                0x2 => AluOp::Mul,
                0x3 => AluOp::Div,
                0x4 => AluOp::Or,
                0x5 => AluOp::And,
                0x6 => AluOp::Lsh,
                0x7 => AluOp::Rsh,
                0x8 => {
                    return if reg { None } else { Some(Kind::Neg { is64 }) };
                }
                0x9 => AluOp::Mod,
                0xa => AluOp::Xor,
                0xb => AluOp::Mov,
                0xc => AluOp::Arsh,
                0xd => {
                    // byte swap exists in the 32-bit ALU class only
                    return if is64 { None } else { Some(Kind::End { to_be: reg }) };
                }
                _ => return None,
            };
            Some(Kind::Alu { op, is64, reg })
        }
        0x05 | 0x06 => {
            let is32 = cls == 0x06;
            let reg = opc & 0x08 != 0;
            let cond = match opc >> 4 {
                0x0 => {
                    return if !is32 && !reg { Some(Kind::Ja) } else { None };
                }
                0x1 => Cond::Eq,
                0x2 => Cond::Gt,
                0x3 => Cond::Ge,
                0x4 => Cond::Set,
                0x5 => Cond::Ne,
                0x6 => Cond::Sgt,
                0x7 => Cond::Sge,
                0x8 => {
                    return if !is32 && !reg { Some(Kind::Call) } else { None };
                }
                0x9 => {
                    return if !is32 && !reg { Some(Kind::Exit) } else { None };
                }
                0xa => Cond::Lt,
                0xb => Cond::Le,
                0xc => Cond::Slt,
                0xd => Cond::Sle,
                _ => return None,
            };
            Some(Kind::Jcc { cond, is32, reg })
        }
        _ => None,
    }
}

pub fn all_supported() -> Vec<u8> {
    (0..=255u8).filter(|o| kind(*o).is_some()).collect()
}

pub fn alu_name(op: AluOp) -> &'static str {
    match op {
        AluOp::Add => "add",
        AluOp::Sub => "sub",
        AluOp::Mul => "mul",
        AluOp::Div => "div",
        AluOp::Or => "or",
        AluOp::And => "and",
        AluOp::Lsh => "lsh",
        AluOp::Rsh => "rsh",
        AluOp::Mod => "mod",
        AluOp::Xor => "xor",
        AluOp::Mov => "mov",
        AluOp::Arsh => "arsh",
    }
}

pub fn cond_name(c: Cond) -> &'static str {
    match c {
        Cond::Eq => "jeq",
        Cond::Gt => "jgt",
        Cond::Ge => "jge",
        Cond::Set => "jset",
        Cond::Ne => "jne",
        Cond::Sgt => "jsgt",
        Cond::Sge => "jsge",
        Cond::Lt => "jlt",
        Cond::Le => "jle",
        Cond::Slt => "jslt",
        Cond::Sle => "jsle",
    }
}

pub fn size_suffix(w: u8) -> &'static str {
    match w {
        1 => "b",
        2 => "h",
        4 => "w",
        _ => "dw",
    }
}

/// Canonical mnemonic (explicit width suffix) for an instruction; for byte swaps the width is
/// the immediate. `src` distinguishes call / callx.
pub fn mnemonic(i: &I) -> Option<String> {
    Some(match kind(i.opc)? {
        Kind::LdAbs(w) => format!("ldabs{}", size_suffix(w)),
        Kind::LdInd(w) => format!("ldind{}", size_suffix(w)),
        Kind::LdDw => "lddw".into(),
        Kind::Ldx(w) => format!("ldx{}", size_suffix(w)),
        Kind::St(w) => format!("st{}", size_suffix(w)),
        Kind::Stx(w) => format!("stx{}", size_suffix(w)),
        Kind::Xadd(w) => format!("stxxadd{}", size_suffix(w)),
        Kind::Alu { op, is64, .. } => format!("{}{}", alu_name(op), if is64 { "64" } else { "32" }),
        Kind::Neg { is64 } => format!("neg{}", if is64 { "64" } else { "32" }),
        Kind::End { to_be } => format!("{}{}", if to_be { "be" } else { "le" }, i.imm),
        Kind::Ja => "ja".into(),
        Kind::Jcc { cond, is32, .. } => format!("{}{}", cond_name(cond), if is32 { "32" } else { "" }),
        Kind::Call => {
            if i.src == 1 {
                "callx".into()
            } else {
                "call".into()
            }
        }
        Kind::Exit => "exit".into(),
    })
}

/// Which fields does an instruction of this kind use? (dst, src, off, imm)
pub fn uses(k: Kind) -> (bool, bool, bool, bool) {
    match k {
        Kind::LdAbs(_) => (false, false, false, true),
        Kind::LdInd(_) => (false, true, false, true),
        Kind::LdDw => (true, false, false, true),
        Kind::Ldx(_) => (true, true, true, false),
        Kind::St(_) => (true, false, true, true),
        Kind::Stx(_) | Kind::Xadd(_) => (true, true, true, false),
        Kind::Alu { reg, .. } => (true, reg, false, !reg),
        Kind::Neg { .. } => (true, false, false, false),
        Kind::End { .. } => (true, false, false, true),
        Kind::Ja => (false, false, true, false),
        Kind::Jcc { reg, .. } => (true, reg, true, !reg),
        Kind::Call => (false, true, false, true), // src = call kind
        Kind::Exit => (false, false, false, false),
    }
}

/// Is this instruction expressible in the assembler's syntax at all?
pub fn assembler_expressible(i: &I) -> bool {
    match kind(i.opc) {
        None => false,
        Some(Kind::Xadd(_)) => false,
        Some(Kind::End { .. }) => matches!(i.imm, 16 | 32 | 64),
        Some(Kind::Call) => i.src <= 1,
        Some(_) => true,
    }
}

// Convenience constructors used by program generators.
pub const EXIT: I = I::new(0x95, 0, 0, 0, 0);
pub fn mov64i(d: u8, imm: i32) -> I {
    I::new(0xb7, d, 0, 0, imm)
}
pub fn mov64r(d: u8, s: u8) -> I {
    I::new(0xbf, d, s, 0, 0)
}
pub fn add64i(d: u8, imm: i32) -> I {
    I::new(0x07, d, 0, 0, imm)
}
pub fn add64r(d: u8, s: u8) -> I {
    I::new(0x0f, d, s, 0, 0)
}
pub fn sub64r(d: u8, s: u8) -> I {
    I::new(0x1f, d, s, 0, 0)
}
pub fn ldxdw(d: u8, s: u8, off: i16) -> I {
    I::new(0x79, d, s, off, 0)
}
pub fn ldxb(d: u8, s: u8, off: i16) -> I {
    I::new(0x71, d, s, off, 0)
}
pub fn stxdw(d: u8, off: i16, s: u8) -> I {
    I::new(0x7b, d, s, off, 0)
}
pub fn stw(d: u8, off: i16, imm: i32) -> I {
    I::new(0x62, d, 0, off, imm)
}
pub fn stdw(d: u8, off: i16, imm: i32) -> I {
    I::new(0x7a, d, 0, off, imm)
}
pub fn ja(off: i16) -> I {
    I::new(0x05, 0, 0, off, 0)
}
pub fn lddw(d: u8, v: u64) -> [I; 2] {
    [I::new(0x18, d, 0, 0, v as u32 as i32), I::new(0, 0, 0, 0, (v >> 32) as u32 as i32)]
}
pub fn call_helper(id: u32) -> I {
    I::new(0x85, 0, 0, 0, id as i32)
}
pub fn call_local(disp: i32) -> I {
    I::new(0x85, 0, 1, 0, disp)
}

/// Human-readable listing (harness's own, for replay files).
pub fn listing(p: &[I]) -> Vec<String> {
    let mut out = vec![];
    let mut k = 0;
    while k < p.len() {
        let i = &p[k];
        let m = mnemonic(i).unwrap_or_else(|| format!("op{:#04x}", i.opc));
        if i.opc == 0x18 && k + 1 < p.len() {
            let v = (i.imm as u32 as u64) | ((p[k + 1].imm as u32 as u64) << 32);
            out.push(format!("{:>4}: lddw r{}, {:#x}", k, i.dst, v));
            k += 2;
            continue;
        }
        out.push(format!("{:>4}: {} dst=r{} src=r{} off={} imm={}", k, m, i.dst, i.src, i.off, i.imm));
        k += 1;
    }
    out
}
