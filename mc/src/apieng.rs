//! Engine `api` (C10): explicit-state search (stateright, BFS to fix-point) of an abstract model
//! of the VM API; every transition is replayed on a real VM and compared (conformance per
//! transition, plus a post-state probe on every edge).

use crate::common::*;
use crate::isa::{self, I};
use crate::refverif;
use crate::vm::{self, AnyVm, Eng, VmKind};
use serde_json::{json, Value};
use stateright::{Checker, Model, Property};
use std::hash::{Hash, Hasher};
use std::sync::atomic::{AtomicU64, Ordering};
use std::sync::{Mutex, OnceLock};

#[derive(Clone, Copy, Debug, PartialEq, Eq, Hash, PartialOrd, Ord)]
pub enum K {
    Raw,
    Fixed,
    Mbuff,
    NoData,
}

#[derive(Clone, Copy, Debug, PartialEq, Eq, Hash, PartialOrd, Ord)]
pub enum P {
    A,
    B,
    H,
    X,
    M,
    L,
    D,
    R,
    O,
    S,
}

#[derive(Clone, Copy, Debug, PartialEq, Eq, Hash, PartialOrd, Ord)]
pub enum V {
    Default,
    DefaultLike,
    AcceptAll,
    RejectAll,
    OnlyB,
    /// a verifier whose verdict depends on state outside the program (a policy switch the embedder
    /// can flip): accepts everything while the policy is on, nothing while it is off
    Stateful,
}

#[derive(Clone, Copy, Debug, PartialEq, Eq, Hash, PartialOrd, Ord)]
pub enum F {
    F,
    G,
}

#[derive(Clone, Copy, Debug, PartialEq, Eq, Hash)]
pub enum Act {
    New(K, Option<P>),
    SetProgram(P, u8),
    SetVerifier(V),
    RegisterHelper(F),
    SetCalc,
    JitCompile,
    ClCompile,
    Exec,
    ExecJit,
    ExecCl,
    /// not an API call: the embedder flips the policy the Stateful verifier consults
    FlipPolicy,
}

thread_local! {
    static POLICY: std::cell::Cell<bool> = const { std::cell::Cell::new(true) };
}
fn ver_stateful(_p: &[u8]) -> Result<(), std::io::Error> {
    if POLICY.with(|p| p.get()) {
        Ok(())
    } else {
        Err(std::io::Error::other("policy is off"))
    }
}

const OFFS: [(usize, usize); 4] = [(0x40, 0x50), (0x50, 0x40), (0x0, 0x8), (0x0, 0x48)];
const PKT1: [u8; 16] = [0x41, 1, 2, 3, 4, 5, 6, 7, 8, 9, 10, 11, 12, 13, 14, 15];
const PKT2: [u8; 9] = [0x42, 1, 2, 3, 4, 5, 6, 7, 8];
const CALC_VALUE: u16 = 64;

fn prog_insns(p: P) -> Vec<I> {
    match p {
        P::A => vec![isa::mov64i(0, 1), isa::EXIT],
        P::B => vec![isa::mov64i(0, 2), isa::EXIT],
        P::H => vec![isa::call_helper(1), isa::EXIT],
        P::X => vec![isa::mov64i(0, 9), I::new(0x85, 0, 2, 0, 1), isa::EXIT], // call kind 2
        P::M => vec![I::new(0x30, 0, 0, 0, 0), isa::EXIT],                    // ldabsb 0
        P::L => vec![isa::mov64r(6, 10), isa::call_local(3), isa::sub64r(6, 0), isa::mov64r(0, 6), isa::EXIT, isa::mov64r(0, 10), isa::EXIT],
        P::D => vec![isa::ldxdw(0, 1, 0x40), isa::ldxdw(2, 1, 0x50), isa::sub64r(2, 0), isa::mov64r(0, 2), isa::EXIT],
        // reads the first 8 bytes of the fixed VM's internal buffer: zero in a freshly (re)loaded VM
        // unless the configured offsets put a packet pointer there
        P::R => vec![isa::ldxdw(0, 1, 0), isa::EXIT],
        // a local call out of the program, in dead code: only a permissive verifier loads it; the
        // interpreter never reaches the call
        P::O => vec![isa::mov64i(0, 7), isa::EXIT, isa::call_local(100), isa::EXIT],
        // reads the slot at 0x40 of the fixed VM's internal buffer: under offsets (0, 0x48) it is
        // neither pointer slot, so it is zero in a freshly (re)loaded VM
        P::S => vec![isa::ldxdw(0, 1, 0x40), isa::EXIT],
    }
}

/// Every program's buffer ends with one more slot holding an unsupported opcode, so that ill-formed
/// byte strings exist that *start at the same address* as a loaded program: the program plus that
/// slot (`prog_alias(p, true)`) and the program without its last instruction (`prog_alias(p, false)`).
fn prog_buffers() -> &'static Vec<Vec<u8>> {
    static CELL: OnceLock<Vec<Vec<u8>>> = OnceLock::new();
    CELL.get_or_init(|| {
        [P::A, P::B, P::H, P::X, P::M, P::L, P::D, P::R, P::O, P::S].iter().map(|p| {
            let mut b = isa::enc(&prog_insns(*p));
            b.extend_from_slice(&[0x06, 0, 0, 0, 0, 0, 0, 0]);
            b
        }).collect()
    })
}

fn prog_bytes(p: P) -> &'static [u8] {
    let b = &prog_buffers()[p as usize];
    &b[..b.len() - 8]
}

fn prog_alias(p: P, longer: bool) -> &'static [u8] {
    let b = &prog_buffers()[p as usize];
    if longer {
        &b[..]
    } else {
        &b[..b.len() - 16]
    }
}

fn helper_f(_: u64, _: u64, _: u64, _: u64, _: u64) -> u64 {
    0x11
}
fn helper_g(_: u64, _: u64, _: u64, _: u64, _: u64) -> u64 {
    0x22
}
fn fval(f: F) -> u64 {
    match f {
        F::F => 0x11,
        F::G => 0x22,
    }
}

fn ver_accept_all(_: &[u8]) -> Result<(), std::io::Error> {
    Ok(())
}
fn ver_reject_all(_: &[u8]) -> Result<(), std::io::Error> {
    Err(std::io::Error::other("reject-all verifier"))
}
fn ver_only_b(p: &[u8]) -> Result<(), std::io::Error> {
    if p == prog_bytes(P::B) {
        Ok(())
    } else {
        Err(std::io::Error::other("only-B verifier"))
    }
}
fn ver_default_like(p: &[u8]) -> Result<(), std::io::Error> {
    refverif::well_formed(p).map_err(std::io::Error::other)
}
/// The calculator looks at the program it is given: frame size = 32 + program length in bytes
/// (so a stack-usage table computed for another program is visible).
fn calc(prog: &[u8], _pc: usize, _data: &mut dyn std::any::Any) -> u16 {
    let _ = CALC_VALUE;
    (32 + prog.len()) as u16
}

fn accepts(v: V, p: P, policy: bool) -> bool {
    match v {
        V::Default | V::DefaultLike => p != P::X && p != P::O,
        V::AcceptAll => true,
        V::RejectAll => false,
        V::OnlyB => p == P::B,
        V::Stateful => policy,
    }
}

#[derive(Clone, Debug)]
pub struct St {
    pub created: bool,
    pub kind: K,
    pub prog: Option<P>,
    pub verifier: V,
    pub helper: Option<F>,
    pub calc: bool,
    pub jit: Option<(P, Option<F>, u8)>,
    pub cl: Option<(P, Option<F>, u8)>,
    /// the VM had been compiled when the current program was loaded and nothing was compiled
    /// explicitly since: executing compiled code must fail - or run the *current* program, if the
    /// implementation recompiles when it loads (the property only forbids running the old one)
    pub jit_implicit: bool,
    pub cl_implicit: bool,
    pub offs: u8,
    /// the policy the Stateful verifier consults
    pub policy: bool,
    pub hist: Vec<Act>,
}

impl PartialEq for St {
    fn eq(&self, o: &St) -> bool {
        self.created == o.created && self.kind == o.kind && self.prog == o.prog && self.verifier == o.verifier && self.helper == o.helper && self.calc == o.calc && self.jit == o.jit && self.cl == o.cl && self.jit_implicit == o.jit_implicit && self.cl_implicit == o.cl_implicit && self.offs == o.offs && self.policy == o.policy
    }
}
impl Eq for St {}
impl Hash for St {
    fn hash<H: Hasher>(&self, h: &mut H) {
        (self.created, self.kind, self.prog, self.verifier, self.helper, self.calc, self.jit, self.cl, self.jit_implicit, self.cl_implicit, self.offs, self.policy).hash(h)
    }
}

/// What the abstract model expects to observe for an action.
#[derive(Clone, Debug, PartialEq, Eq)]
pub enum Exp {
    Ok,
    Err,
    /// any of these values
    Val(Vec<u64>),
    /// an error, or else what the inner expectation says
    ErrOr(Box<Exp>),
    /// not specified (e.g. a configuration the property does not speak about): not compared
    Any,
    /// not specified at all, a panic included: compiling a program that only a permissive
    /// verifier let in (no property speaks about it)
    Unspecified,
}

#[derive(Clone, Debug, PartialEq, Eq)]
pub enum Obs {
    Ok,
    Err(String),
    Val(u64),
    Panic(String),
}

/// Value of executing program p (interpreter semantics of the model).
fn value(p: P, helper: Option<F>, kind: K, offs: u8, calc: bool, pkt: &[u8], eng: Eng) -> Exp {
    match p {
        P::A => Exp::Val(vec![1]),
        P::B => Exp::Val(vec![2]),
        P::H => match helper {
            Some(f) => Exp::Val(vec![fval(f)]),
            None => Exp::Err,
        },
        P::X => Exp::Err,
        P::O => match eng {
            Eng::Interp => Exp::Val(vec![7]),
            _ => Exp::Any,
        },
        P::M => {
            if kind == K::NoData || pkt.is_empty() {
                Exp::Err
            } else {
                Exp::Val(vec![pkt[0] as u64])
            }
        }
        P::L => match eng {
            // the frame size the caller reserved: 256 or the calculator's value
            Eng::Interp => Exp::Val(vec![if calc { 32 + prog_bytes(P::L).len() as u64 } else { 256 }]),
            // local calls under the JIT are C07's subject; Cranelift refuses them
            _ => Exp::Any,
        },
        P::D => {
            if kind != K::Fixed {
                Exp::Any
            } else if offs == 0 {
                Exp::Val(vec![pkt.len() as u64])
            } else if offs == 1 {
                Exp::Val(vec![(pkt.len() as u64).wrapping_neg()])
            } else {
                Exp::Err // offsets (0,8): the buffer is 16 bytes, 0x40 is outside
            }
        }
        // R and S read a slot of the fixed VM's internal buffer that is not a pointer slot. What a
        // freshly (re)loaded VM holds there is not specified (zero today); the property is that it does
        // not depend on the history: the expectation is whatever a VM that has done nothing else returns
        P::S => {
            if kind == K::Fixed && offs == 3 {
                Exp::Val(vec![fresh_fixed_value(P::S, offs)])
            } else {
                Exp::Any
            }
        }
        P::R => {
            if kind != K::Fixed || offs == 2 || offs == 3 {
                Exp::Any // a raw address (the packet pointer) or not a metadata VM
            } else {
                Exp::Val(vec![fresh_fixed_value(P::R, offs)])
            }
        }
    }
}

/// What program `p` returns on a fixed-metadata VM created with it under offset pair `offs` and
/// executed once - measured on the implementation, once per (program, offsets).
fn fresh_fixed_value(p: P, offs: u8) -> u64 {
    static CACHE: OnceLock<Mutex<std::collections::HashMap<(P, u8), u64>>> = OnceLock::new();
    let c = CACHE.get_or_init(|| Mutex::new(std::collections::HashMap::new()));
    if let Some(v) = c.lock().unwrap().get(&(p, offs)) {
        return *v;
    }
    let (a, b) = OFFS[offs as usize];
    let mut pkt = PKT1;
    let v = AnyVm::new(VmKind::Fixed(a, b), Some(prog_bytes(p))).ok().and_then(|mut vm| vm.exec(Eng::Interp, (pkt.as_mut_ptr(), pkt.len()), vm::empty_raw()).ok()).unwrap_or(0);
    c.lock().unwrap().insert((p, offs), v);
    v
}

fn uses_helper(p: P) -> bool {
    p == P::H
}

/// Program O (a local call out of the program, in dead code) is loadable only under a permissive
/// verifier, and no property says that it must load even then (an implementation may validate call
/// targets in a later stage): a refusal is accepted, and the successor is then the unchanged state -
/// which the probe checks like after any other failed set_program.
fn loading_o_may_fail(s: &St, a: Act, n: St, exp: Exp, obs: &Obs) -> (St, Exp) {
    if let (Act::SetProgram(P::O, _), Exp::Ok, Obs::Err(_)) = (a, &exp, obs) {
        // (under the Stateful verifier with the policy on, O loads like under accept-all)
        let mut u = s.clone();
        u.hist = n.hist.clone();
        return (u, Exp::Any);
    }
    (n, exp)
}

/// Abstract transition: successor state and expected observation.
pub fn step(s: &St, a: Act) -> (St, Exp) {
    let mut n = s.clone();
    n.hist.push(a);
    let exp = match a {
        Act::New(k, p) => {
            n.kind = k;
            match p {
                None => {
                    n.created = true;
                    Exp::Ok
                }
                Some(p) if accepts(V::Default, p, true) => {
                    n.created = true;
                    n.prog = Some(p);
                    Exp::Ok
                }
                Some(_) => Exp::Err,
            }
        }
        Act::SetProgram(p, o) => {
            if accepts(s.verifier, p, s.policy) {
                n.prog = Some(p);
                n.offs = o;
                // compiled code belongs to the previous program: it must not run any more
                n.jit_implicit = s.jit.is_some() || s.jit_implicit;
                n.cl_implicit = s.cl.is_some() || s.cl_implicit;
                n.jit = None;
                n.cl = None;
                Exp::Ok
            } else {
                Exp::Err
            }
        }
        Act::SetVerifier(v) => {
            if s.prog.map_or(true, |p| accepts(v, p, s.policy)) {
                n.verifier = v;
                Exp::Ok
            } else {
                Exp::Err
            }
        }
        Act::RegisterHelper(f) => {
            n.helper = Some(f);
            Exp::Ok
        }
        Act::SetCalc => {
            n.calc = true;
            Exp::Ok
        }
        Act::JitCompile => match s.prog {
            None => Exp::Err,
            Some(P::X) => Exp::Err,
            Some(P::O) => {
                // whatever this did, what execute_program_jit then does is unspecified too
                n.jit = Some((P::O, s.helper, s.offs));
                Exp::Unspecified
            }
            Some(p) if uses_helper(p) && s.helper.is_none() => Exp::Err,
            Some(p) => {
                n.jit = Some((p, s.helper, s.offs));
                n.jit_implicit = false;
                Exp::Ok
            }
        },
        Act::ClCompile => match s.prog {
            None => Exp::Err,
            Some(P::X) | Some(P::L) | Some(P::O) => Exp::Err,
            Some(p) if uses_helper(p) && s.helper.is_none() => Exp::Err,
            Some(p) => {
                n.cl = Some((p, s.helper, s.offs));
                n.cl_implicit = false;
                Exp::Ok
            }
        },
        Act::Exec => match s.prog {
            None => Exp::Err,
            Some(p) => value(p, s.helper, s.kind, s.offs, s.calc, &PKT1, Eng::Interp),
        },
        Act::ExecJit => exec_compiled(s, s.jit, Eng::Jit, &PKT1),
        Act::ExecCl => exec_compiled(s, s.cl, Eng::Cl, &PKT1),
        Act::FlipPolicy => {
            n.policy = !s.policy;
            Exp::Ok
        }
    };
    (n, exp)
}

/// Would compiling program p (helper h registered) succeed, as far as the properties say?
fn compilable(p: P, h: Option<F>, eng: Eng) -> Option<bool> {
    match (p, eng) {
        (P::X, _) => Some(false),
        (P::O, Eng::Jit) => None,
        (P::L | P::O, Eng::Cl) => Some(false),
        (p, _) if uses_helper(p) && h.is_none() => Some(false),
        _ => Some(true),
    }
}

fn exec_compiled(s: &St, c: Option<(P, Option<F>, u8)>, eng: Eng, pkt: &[u8]) -> Exp {
    let implicit = if eng == Eng::Jit { s.jit_implicit } else { s.cl_implicit };
    match c {
        None if implicit => {
            // nothing was compiled since the current program was loaded over compiled code: an error,
            // or the current program's result if loading recompiled it (helper bound then or now)
            match (s.prog, s.prog.and_then(|p| compilable(p, s.helper, eng))) {
                // (a helper is bound when the code is generated: at load time, which the state does not
                // remember - either helper's value is accepted)
                (Some(p), _) if uses_helper(p) => Exp::ErrOr(Box::new(Exp::Val(vec![fval(F::F), fval(F::G)]))),
                (Some(p), Some(true)) => Exp::ErrOr(Box::new(value(p, s.helper, s.kind, s.offs, s.calc, pkt, eng))),
                (Some(_), None) => Exp::Unspecified,
                _ => Exp::Err,
            }
        }
        None => Exp::Err,
        Some((p, hf, _o)) => {
            // compiled code binds the helpers registered at compile time (documented); if the
            // registration changed since, either binding is accepted
            let mut e = value(p, hf, s.kind, s.offs, s.calc, pkt, eng);
            if uses_helper(p) && hf != s.helper {
                if let (Exp::Val(mut v), Some(h2)) = (e.clone(), s.helper) {
                    v.push(fval(h2));
                    e = Exp::Val(v);
                }
            }
            e
        }
    }
}

pub struct RealVm {
    vm: Option<AnyVm<'static>>,
    kind: K,
}

fn vmkind(k: K, o: u8) -> VmKind {
    match k {
        K::Raw => VmKind::Raw,
        K::Mbuff => VmKind::Mbuff,
        K::NoData => VmKind::NoData,
        K::Fixed => VmKind::Fixed(OFFS[o as usize].0, OFFS[o as usize].1),
    }
}

fn exec_real(vmx: &mut AnyVm<'static>, kind: K, eng: Eng, pkt: &[u8]) -> Obs {
    // private copies so that no execution can affect a later one through the harness
    let mut p = pkt.to_vec();
    let mut mb = vec![0u8; 32];
    let mem = if kind == K::NoData { vm::empty_raw() } else { (p.as_mut_ptr(), p.len()) };
    let mbr = if kind == K::Mbuff { (mb.as_mut_ptr(), mb.len()) } else { vm::empty_raw() };
    rbpf::verif_hooks::set_insn_budget(Some(10_000));
    let r = catch(|| vmx.exec(eng, mem, mbr));
    rbpf::verif_hooks::set_insn_budget(None);
    match r {
        Ok(Ok(v)) => Obs::Val(v),
        Ok(Err(e)) => Obs::Err(e),
        Err(m) => Obs::Panic(m),
    }
}

impl RealVm {
    pub fn apply(&mut self, a: Act) -> Obs {
        let r = catch(|| self.apply_inner(a));
        match r {
            Ok(o) => o,
            Err(m) => Obs::Panic(m),
        }
    }
    fn apply_inner(&mut self, a: Act) -> Obs {
        let rr = |r: Result<(), String>| match r {
            Ok(()) => Obs::Ok,
            Err(e) => Obs::Err(e),
        };
        if let Act::New(k, p) = a {
            self.kind = k;
            return match AnyVm::new(vmkind(k, 0), p.map(prog_bytes)) {
                Ok(v) => {
                    self.vm = Some(v);
                    Obs::Ok
                }
                Err(e) => Obs::Err(e),
            };
        }
        let kind = self.kind;
        let Some(vmx) = self.vm.as_mut() else { return Obs::Err("no vm".into()) };
        match a {
            Act::New(..) => unreachable!(),
            Act::SetProgram(p, o) => rr(vmx.set_program(prog_bytes(p), OFFS[o as usize])),
            Act::SetVerifier(v) => rr(vmx.set_verifier(match v {
                V::Default | V::DefaultLike => ver_default_like,
                V::AcceptAll => ver_accept_all,
                V::RejectAll => ver_reject_all,
                V::OnlyB => ver_only_b,
                V::Stateful => ver_stateful,
            })),
            Act::RegisterHelper(f) => rr(vmx.register_helper(1, if f == F::F { helper_f } else { helper_g })),
            Act::SetCalc => rr(vmx.set_calc(calc, Box::new(()))),
            Act::FlipPolicy => {
                POLICY.with(|p| p.set(!p.get()));
                Obs::Ok
            }
            Act::JitCompile => rr(vmx.compile(Eng::Jit)),
            Act::ClCompile => rr(vmx.compile(Eng::Cl)),
            Act::Exec => exec_real(vmx, kind, Eng::Interp, &PKT1),
            Act::ExecJit => exec_real(vmx, kind, Eng::Jit, &PKT1),
            Act::ExecCl => exec_real(vmx, kind, Eng::Cl, &PKT1),
        }
    }
}

/// Observation for messages: a value that looks like an address is not printed (it differs
/// from run to run, and replays must print the same text).
fn show(o: &Obs) -> String {
    match o {
        Obs::Val(v) if *v >= 1 << 40 && *v < 0xffff_0000_0000_0000 => "Val(<address-like value>)".into(),
        x => format!("{x:?}"),
    }
}

fn matches(exp: &Exp, obs: &Obs) -> Option<&'static str> {
    match (exp, obs) {
        (Exp::Unspecified, _) => None,
        (_, Obs::Panic(_)) => Some("panic"),
        (Exp::ErrOr(_), Obs::Err(_)) => None,
        (Exp::ErrOr(e), o) => matches(e, o),
        (Exp::Any, _) => None,
        (Exp::Ok, Obs::Ok) => None,
        (Exp::Ok, Obs::Val(_)) => None,
        (Exp::Err, Obs::Err(_)) => None,
        (Exp::Val(vs), Obs::Val(v)) => {
            if vs.contains(v) {
                None
            } else {
                Some("value-mismatch")
            }
        }
        (Exp::Ok, Obs::Err(_)) | (Exp::Val(_), Obs::Err(_)) => Some("err-instead-of-ok"),
        (Exp::Err, _) => Some("ok-instead-of-err"),
        (Exp::Val(_), Obs::Ok) => Some("no-value"),
    }
}

#[derive(Clone, Debug)]
pub struct Finding {
    pub sig: String,
    pub detail: String,
    pub hist: Vec<Act>,
}

pub struct Cfg {
    pub kinds: Vec<K>,
    pub progs: Vec<P>,
    pub verifiers: Vec<V>,
    pub helpers: Vec<F>,
    pub calc: bool,
    pub jit: bool,
    pub cl: bool,
}

pub struct ApiModel {
    pub cfg: Cfg,
    pub transitions: AtomicU64,
    pub probes: AtomicU64,
    pub findings: Mutex<Vec<Finding>>,
}

/// Replay a history on a fresh real VM; returns the VM and the observation of the last action.
fn rebuild(hist: &[Act]) -> (RealVm, Option<Obs>) {
    POLICY.with(|p| p.set(true));
    let mut r = RealVm { vm: None, kind: K::Raw };
    let mut last = None;
    for a in hist {
        last = Some(r.apply(*a));
    }
    (r, last)
}

/// Post-state probe: the state reached must behave as the model says, whatever path led here.
fn probe(m: &ApiModel, n: &St, real: &mut RealVm, via: Act) {
    if !n.created {
        return;
    }
    let mut checks: Vec<(&'static str, Exp, Obs)> = vec![];
    let kind = n.kind;
    let Some(vmx) = real.vm.as_mut() else { return };
    let empty: [u8; 0] = [];
    for (name, pkt) in [("exec-pkt1", &PKT1[..]), ("exec-empty-pkt", &empty[..]), ("exec-pkt2", &PKT2[..])] {
        if pkt.is_empty() && kind == K::NoData {
            continue;
        }
        let e = match n.prog {
            None => Exp::Err,
            Some(p) => value(p, n.helper, n.kind, n.offs, n.calc, pkt, Eng::Interp),
        };
        checks.push((name, e, exec_real(vmx, kind, Eng::Interp, pkt)));
    }
    if m.cfg.jit {
        checks.push(("exec-jit", exec_compiled(n, n.jit, Eng::Jit, &PKT2), exec_real(vmx, kind, Eng::Jit, &PKT2)));
    }
    if m.cfg.cl {
        checks.push(("exec-cl", exec_compiled(n, n.cl, Eng::Cl, &PKT2), exec_real(vmx, kind, Eng::Cl, &PKT2)));
    }
    // a failing set_program must change nothing
    if !accepts(n.verifier, P::X, n.policy) {
        let o = match vmx.set_program(prog_bytes(P::X), OFFS[(n.offs as usize + 1) % 3]) {
            Ok(()) => Obs::Ok,
            Err(e) => Obs::Err(e),
        };
        checks.push(("failing-set_program", Exp::Err, o));
        let e = match n.prog {
            None => Exp::Err,
            Some(p) => value(p, n.helper, n.kind, n.offs, n.calc, &PKT1, Eng::Interp),
        };
        checks.push(("exec-after-failed-set_program", e, exec_real(vmx, kind, Eng::Interp, &PKT1)));
    }
    // ... also when the refused byte string starts at the very address of the loaded program (the
    // loaded program plus one ill-formed slot; the loaded program without its last instruction)
    if let (Some(p), true) = (n.prog, n.verifier != V::AcceptAll && !(n.verifier == V::Stateful && n.policy)) {
        for (name, longer) in [("failing-set_program-of-an-extension-of-the-loaded-buffer", true), ("failing-set_program-of-a-prefix-of-the-loaded-buffer", false)] {
            let o = match vmx.set_program(prog_alias(p, longer), OFFS[n.offs as usize]) {
                Ok(()) => Obs::Ok,
                Err(e) => Obs::Err(e),
            };
            checks.push((name, Exp::Err, o));
        }
        checks.push(("exec-after-failed-set_program-of-an-alias", value(p, n.helper, n.kind, n.offs, n.calc, &PKT1, Eng::Interp), exec_real(vmx, kind, Eng::Interp, &PKT1)));
    }
    m.probes.fetch_add(checks.len() as u64, Ordering::Relaxed);
    for (name, e, o) in checks {
        if let Some(sym) = matches(&e, &o) {
            m.findings.lock().unwrap().push(Finding {
                sig: format!("api/after-{}/{name}:{sym}", act_name(via)),
                detail: format!("after {:?} the VM is in abstract state {{prog {:?}, verifier {:?}, helper {:?}, jit {:?}, cl {:?}, offsets #{}}}; probe {name}: expected {e:?}, observed {}", n.hist, n.prog, n.verifier, n.helper, n.jit, n.cl, n.offs, show(&o)),
                hist: n.hist.clone(),
            });
        }
    }
}

fn act_name(a: Act) -> &'static str {
    match a {
        Act::New(_, None) => "new(None)",
        Act::New(_, Some(_)) => "new(prog)",
        Act::SetProgram(..) => "set_program",
        Act::SetVerifier(_) => "set_verifier",
        Act::RegisterHelper(_) => "register_helper",
        Act::SetCalc => "set_stack_usage_calculator",
        Act::JitCompile => "jit_compile",
        Act::ClCompile => "cranelift_compile",
        Act::Exec => "execute_program",
        Act::ExecJit => "execute_program_jit",
        Act::ExecCl => "execute_program_cranelift",
        Act::FlipPolicy => "flip-policy",
    }
}

impl Model for ApiModel {
    type State = St;
    type Action = Act;

    fn init_states(&self) -> Vec<St> {
        vec![St { created: false, kind: K::Raw, prog: None, verifier: V::Default, helper: None, calc: false, jit: None, cl: None, jit_implicit: false, cl_implicit: false, offs: 0, policy: true, hist: vec![] }]
    }

    fn actions(&self, s: &St, out: &mut Vec<Act>) {
        if !s.created {
            for k in &self.cfg.kinds {
                out.push(Act::New(*k, None));
                for p in &self.cfg.progs {
                    if ((*p == P::D || *p == P::R || *p == P::S) && *k != K::Fixed) || (*p == P::M && *k == K::NoData) {
                        // M on a VM without packet is an out-of-bounds load: compiled code
                        // (no checks in the JIT, a trap in Cranelift) is outside this property
                        continue;
                    }
                    out.push(Act::New(*k, Some(*p)));
                }
            }
            return;
        }
        for p in &self.cfg.progs {
            if ((*p == P::D || *p == P::R || *p == P::S) && s.kind != K::Fixed) || (*p == P::M && s.kind == K::NoData) {
                continue;
            }
            if s.kind == K::Fixed {
                out.push(Act::SetProgram(*p, 0));
                out.push(Act::SetProgram(*p, 1));
                if *p != P::D && *p != P::S {
                    // D and S under offsets (0,8) read outside the 16-byte buffer: compiled code would
                    // trap / fault, which is outside this property
                    out.push(Act::SetProgram(*p, 2));
                }
                if *p != P::D && self.cfg.progs.contains(&P::S) {
                    // a shorter buffer than (0x40,0x50) needs: D would read beyond it
                    out.push(Act::SetProgram(*p, 3));
                }
            } else {
                out.push(Act::SetProgram(*p, 0));
            }
        }
        for v in &self.cfg.verifiers {
            out.push(Act::SetVerifier(*v));
        }
        if self.cfg.verifiers.contains(&V::Stateful) {
            out.push(Act::FlipPolicy);
        }
        for f in &self.cfg.helpers {
            out.push(Act::RegisterHelper(*f));
        }
        if self.cfg.calc && !s.calc {
            out.push(Act::SetCalc);
        }
        if self.cfg.jit {
            out.push(Act::JitCompile);
            out.push(Act::ExecJit);
        }
        if self.cfg.cl {
            out.push(Act::ClCompile);
            out.push(Act::ExecCl);
        }
        out.push(Act::Exec);
    }

    fn next_state(&self, s: &St, a: Act) -> Option<St> {
        let (n, exp) = step(s, a);
        self.transitions.fetch_add(1, Ordering::Relaxed);
        // conformance: replay the history on a real VM, apply the action, compare
        let (mut real, obs) = rebuild(&n.hist);
        let obs = obs.unwrap();
        let (n, exp) = loading_o_may_fail(s, a, n, exp, &obs);
        if let Some(sym) = matches(&exp, &obs) {
            self.findings.lock().unwrap().push(Finding {
                sig: format!("api/{}/{sym}", act_name(a)),
                detail: format!("history {:?}: the model expects {exp:?}, the implementation gave {}", n.hist, show(&obs)),
                hist: n.hist.clone(),
            });
        }
        probe(self, &n, &mut real, a);
        // new() that failed leaves "no VM": stay in the initial state
        if !n.created {
            return None;
        }
        let mut n = n;
        // Self-loops (executions, failed calls) are dropped from the stored history, so the
        // search itself never continues "after a failed call". To keep that visible, every
        // action enabled in the state is tried once right after the self-loop action, on a VM
        // that really went through it (depth-2 look-ahead on self-loop edges).
        if n == *s {
            let mut next = vec![];
            self.actions(&n, &mut next);
            for a2 in next {
                let (n2, exp2) = step(&n, a2);
                let (mut real2, obs2) = rebuild(&n2.hist);
                let (n2, exp2) = loading_o_may_fail(&n, a2, n2, exp2, obs2.as_ref().unwrap());
                self.probes.fetch_add(1, Ordering::Relaxed);
                if n2.created && !matches!(a2, Act::Exec | Act::ExecJit | Act::ExecCl) {
                    // and the state reached that way must behave as the model says (an execution
                    // followed by a reload must not leave anything of the execution behind)
                    probe(self, &n2, &mut real2, a2);
                }
                if let Some(sym) = matches(&exp2, &obs2.unwrap()) {
                    self.findings.lock().unwrap().push(Finding {
                        sig: format!("api/{}-after-noop-{}/{sym}", act_name(a2), act_name(a)),
                        detail: format!("history {:?}: {a:?} changed nothing in the model, but the following {a2:?} should give {exp2:?}", n2.hist),
                        hist: n2.hist.clone(),
                    });
                }
            }
            n.hist = s.hist.clone();
        }
        Some(n)
    }

    fn properties(&self) -> Vec<Property<Self>> {
        // never produces a discovery, so the search runs to the fix-point; violations are
        // collected per transition in `findings`
        vec![Property::always("explored-to-fix-point", |_, _| true)]
    }
}

fn cfg_for(tier: Tier, part: usize) -> Cfg {
    if part == 2 {
        // stack-usage calculator and the local-call program (interpreter only: frame sizes)
        return Cfg {
            kinds: if tier == Tier::Quick { vec![K::NoData, K::Fixed] } else { vec![K::Raw, K::Fixed, K::Mbuff, K::NoData] },
            progs: vec![P::A, P::L, P::X],
            verifiers: vec![V::DefaultLike, V::RejectAll, V::Stateful],
            helpers: vec![],
            calc: true,
            jit: false,
            cl: false,
        };
    }
    match tier {
        Tier::Quick => Cfg {
            kinds: if part == 0 { vec![K::Raw, K::Fixed, K::Mbuff, K::NoData] } else { vec![K::Fixed, K::Mbuff] },
            progs: if part == 0 { vec![P::A, P::B, P::H, P::X] } else { vec![P::A, P::D, P::O, P::M, P::R, P::S] },
            verifiers: vec![V::DefaultLike, V::AcceptAll, V::RejectAll, V::OnlyB],
            helpers: if part == 0 { vec![F::F, F::G] } else { vec![F::F] },
            calc: false,
            jit: true,
            cl: true,
        },
        Tier::Thorough => Cfg {
            kinds: vec![K::Raw, K::Fixed, K::Mbuff, K::NoData],
            progs: if part == 0 { vec![P::A, P::B, P::H, P::X, P::M] } else { vec![P::A, P::L, P::D, P::X, P::R, P::O, P::S] },
            verifiers: vec![V::DefaultLike, V::AcceptAll, V::RejectAll, V::OnlyB],
            helpers: vec![F::F, F::G],
            calc: true,
            jit: true,
            cl: part == 0,
        },
    }
}

fn hist_json(h: &[Act]) -> Value {
    json!(h.iter().map(|a| format!("{a:?}")).collect::<Vec<_>>())
}

fn parse_act(s: &str) -> Act {
    let p = |x: &str| match x {
        "A" => P::A,
        "B" => P::B,
        "H" => P::H,
        "X" => P::X,
        "M" => P::M,
        "L" => P::L,
        "R" => P::R,
        "O" => P::O,
        "S" => P::S,
        _ => P::D,
    };
    let k = |x: &str| match x {
        "Raw" => K::Raw,
        "Fixed" => K::Fixed,
        "Mbuff" => K::Mbuff,
        _ => K::NoData,
    };
    let inner = |s: &str| -> String { s[s.find('(').unwrap() + 1..s.rfind(')').unwrap()].to_string() };
    if s.starts_with("New(") {
        let i = inner(s);
        let (a, b) = i.split_once(", ").unwrap();
        let pp = if b == "None" { None } else { Some(p(&inner(b))) };
        return Act::New(k(a), pp);
    }
    if s.starts_with("SetProgram(") {
        let i = inner(s);
        let (a, b) = i.split_once(", ").unwrap();
        return Act::SetProgram(p(a), b.parse().unwrap());
    }
    if s.starts_with("SetVerifier(") {
        return Act::SetVerifier(match inner(s).as_str() {
            "Default" => V::Default,
            "DefaultLike" => V::DefaultLike,
            "AcceptAll" => V::AcceptAll,
            "RejectAll" => V::RejectAll,
            "Stateful" => V::Stateful,
            _ => V::OnlyB,
        });
    }
    if s.starts_with("RegisterHelper(") {
        return Act::RegisterHelper(if inner(s) == "F" { F::F } else { F::G });
    }
    match s {
        "SetCalc" => Act::SetCalc,
        "FlipPolicy" => Act::FlipPolicy,
        "JitCompile" => Act::JitCompile,
        "ClCompile" => Act::ClCompile,
        "Exec" => Act::Exec,
        "ExecJit" => Act::ExecJit,
        _ => Act::ExecCl,
    }
}

fn run_model(cfg: Cfg, threads: usize) -> (ApiModel, usize, usize, usize) {
    let m = ApiModel { cfg, transitions: AtomicU64::new(0), probes: AtomicU64::new(0), findings: Mutex::new(vec![]) };
    let checker = m.checker().threads(threads).spawn_bfs().join();
    let (u, t, d) = (checker.unique_state_count(), checker.state_count(), checker.max_depth());
    // take the model back out of the checker
    let mm = checker.model();
    let out = ApiModel {
        cfg: Cfg { kinds: mm.cfg.kinds.clone(), progs: mm.cfg.progs.clone(), verifiers: mm.cfg.verifiers.clone(), helpers: mm.cfg.helpers.clone(), calc: mm.cfg.calc, jit: mm.cfg.jit, cl: mm.cfg.cl },
        transitions: AtomicU64::new(mm.transitions.load(Ordering::Relaxed)),
        probes: AtomicU64::new(mm.probes.load(Ordering::Relaxed)),
        findings: Mutex::new(mm.findings.lock().unwrap().clone()),
    };
    (out, u, t, d)
}

pub fn run(s: &mut Sink) {
    // stateright parallelises internally: each part of the configuration is one group
    let tier = s.tier;
    s.meta.insert("alphabet".into(), json!({
        "actions": "new(None|prog), set_program(prog[, offsets]), set_verifier(default-like|accept-all|reject-all|only-B), register_helper(f|g), set_stack_usage_calculator, jit_compile, cranelift_compile, execute_program, execute_program_jit, execute_program_cranelift",
        "programs": {"A": "returns 1", "B": "returns 2", "H": "returns helper 1's value", "X": "call kind 2: rejected by the default verifier, an error in every engine", "M": "ldabsb 0 (depends on the packet)", "L": "local call returning the caller's frame size (calculator)", "D": "fixed VM: data_end - data through the configured offsets", "R": "fixed VM: first 8 bytes of the internal buffer (zero unless the offsets put a pointer there)"},
        "vm_kinds": if tier == Tier::Quick {"part 0: Raw, Fixed, Mbuff, NoData (one exploration per kind: kinds never interact); part 1: Fixed (two program sets: A D O M / A D R S), Mbuff; part 2: NoData, Fixed"} else {"Raw, Fixed, Mbuff, NoData"},
        "post_state_probe": "execute on two packets, execute_jit, execute_cranelift, a set_program that must fail and change nothing, execute again",
    }));
    s.meta.insert("bound".into(), json!("breadth-first search to the fix-point of the abstract state space (no depth cut); stateright 0.31"));
    s.meta.insert("rule".into(), json!("states = unique abstract VM states found by stateright; transitions = next_state calls, each one a replay of the state's history on a fresh real VM plus the action plus the probe; non-trivial = transitions whose action is not a self-loop"));
    s.meta.insert("assumptions".into(), json!(["two histories reaching the same abstract state behave alike - checked (not assumed) on every edge by the post-state probe", "helpers registered after compiling: either binding accepted (compile-time binding is the documented contract)"]));
    // VM objects of different kinds never interact, so the state space of a configuration is the
    // disjoint union of its per-kind sub-spaces: the quick tier explores each in a process of its own
    // (the fixed-metadata sub-space of part 1, the largest by far, is further explored as two program
    // sets in the quick tier; the thorough tier explores all its programs together)
    let mut plan: Vec<(usize, Option<K>, Option<Vec<P>>)> = vec![];
    for part in 0..3usize {
        if tier == Tier::Quick && part < 2 {
            for k in cfg_for(tier, part).kinds {
                if part == 1 && k == K::Fixed {
                    plan.push((part, Some(k), Some(vec![P::A, P::D, P::O, P::M])));
                    plan.push((part, Some(k), Some(vec![P::A, P::D, P::R, P::S])));
                } else {
                    plan.push((part, Some(k), None));
                }
            }
        } else {
            plan.push((part, None, None));
        }
    }
    let after_error_idx = plan.len() as u64;
    for (idx, (part, only_kind, only_progs)) in plan.into_iter().enumerate() {
        if !s.take(idx as u64) {
            continue;
        }
        s.mark(idx as u64, "api", &json!({"kind":"none"}));
        let threads = match only_kind { Some(K::Fixed) => 4, Some(_) => 2, None => 8 }; // the fixed-metadata sub-space (offset pairs) is by far the largest
        let mk = || {
            let mut c = cfg_for(tier, part);
            if let Some(k) = only_kind {
                c.kinds = vec![k];
            }
            if let Some(ps) = &only_progs {
                c.progs = ps.clone();
            }
            c
        };
        let (m, unique, total, depth) = run_model(mk(), threads);
        // determinism (the model must be a function of the abstract state): run again, compare
        // (thorough tier; the quick tier explores once)
        if tier == Tier::Thorough {
            let (m2, unique2, _total2, _d2) = run_model(mk(), threads);
            if unique != unique2 || m.transitions.load(Ordering::Relaxed) != m2.transitions.load(Ordering::Relaxed) {
                s.violation("harness/api/nondeterministic-state-space", format!("two runs explored {unique}/{unique2} states"), json!({"kind":"none"}));
            }
        }
        s.count("states", unique as u64);
        s.count("transitions", m.transitions.load(Ordering::Relaxed));
        s.count("traces_validated_against_impl", m.transitions.load(Ordering::Relaxed));
        s.count("probe_checks", m.probes.load(Ordering::Relaxed));
        s.count("evaluations", m.transitions.load(Ordering::Relaxed));
        s.count("distinct_nontrivial", total as u64);
        s.count("max_depth", depth as u64);
        // report findings: shortest history per signature first
        let mut f = m.findings.lock().unwrap().clone();
        f.sort_by_key(|x| (x.sig.clone(), x.hist.len(), format!("{:?}", x.hist)));
        for x in f {
            s.violation(&x.sig, x.detail.clone(), json!({"kind":"api","history":hist_json(&x.hist),"jit": m.cfg.jit, "cl": m.cfg.cl}));
        }
        s.sample(&format!("part{part}"), || json!({"history": ["New(Fixed, Some(A))", "JitCompile", "SetProgram(B, 1)", "ExecJit"], "meaning": "each abstract transition replays such a history on a fresh VM"}));
        match only_kind {
            Some(k) => s.done(&format!("configuration part {part}, {k:?} VMs{}: fix-point reached", only_progs.as_ref().map(|p| format!(", programs {p:?}")).unwrap_or_default())),
            None => s.done(&format!("configuration part {part}: fix-point reached")),
        }
    }
    // "not on earlier executions" - in particular not on an earlier execution that failed: the
    // after-error family of the isa engine (a failing / succeeding writer, then a reader of the same
    // stack slots on the same VM object, against the reader on a fresh VM), on all four VM kinds
    if s.take(after_error_idx) {
        s.mark(after_error_idx, "api", &json!({"kind":"none"}));
        crate::isaeng::l6_after_error(s);
        s.done("executions after a failed execution (interpreter, 4 VM kinds x 6 failure modes x 4 readers x 2 orders)");
    }
}

pub fn replay(v: &Value) -> Vec<String> {
    let hist: Vec<Act> = v["history"].as_array().unwrap().iter().map(|x| parse_act(x.as_str().unwrap())).collect();
    let cfg = Cfg { kinds: vec![], progs: vec![], verifiers: vec![], helpers: vec![], calc: true, jit: v["jit"].as_bool().unwrap_or(true), cl: v["cl"].as_bool().unwrap_or(true) };
    let m = ApiModel { cfg, transitions: AtomicU64::new(0), probes: AtomicU64::new(0), findings: Mutex::new(vec![]) };
    // walk the abstract model along the history, comparing every step and probing every state
    let mut st = m.init_states().remove(0);
    let mut out = vec![];
    for (n, a) in hist.iter().enumerate() {
        let (nx, exp) = step(&st, *a);
        let (mut real, obs) = rebuild(&hist[..=n]);
        let obs = obs.unwrap();
        if let Some(sym) = matches(&exp, &obs) {
            out.push(format!("api/{}/{sym}: step {n} {a:?}: expected {exp:?}, observed {}", act_name(*a), show(&obs)));
        }
        let mut nn = nx.clone();
        nn.hist = hist[..=n].to_vec();
        probe(&m, &nn, &mut real, *a);
        if nx.created {
            st = nx;
        }
    }
    for f in m.findings.lock().unwrap().iter() {
        out.push(format!("{}: {}", f.sig, f.detail));
    }
    out.sort();
    out.dedup();
    out
}
