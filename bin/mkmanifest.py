#!/usr/bin/env python3
"""Regenerates /verif/MANIFEST.json from the table below (keeps it valid at all times)."""
import json, os
ROOT = os.path.dirname(os.path.dirname(os.path.abspath(__file__)))
props = [json.loads(l)["id"] for l in open(os.path.join(ROOT, "properties.jsonl"))]

TRUST = "Trusted base: the harness's own ISA table / reference models in /verif/mc/src (a few hundred lines each), rustc, and the enumeration being complete for the stated alphabets and bounds only."

ISA_TEXT = "Transition-conformance of a reference eBPF machine (mc/src/refmodel.rs, values carry definedness so the exclusion clauses are applied mechanically). Layer 1: every supported opcode x every (dst,src) register pair x 30 immediates x 12 offsets x 31^2 boundary operand values, one transition per case with the whole register frame (r0-r9), branch marker and store area compared, plus unused-field noise (offset 8/16/32, stray imm/src) on every form. Layer 2: all sequences of 3 (thorough 4) instructions over a 48-instruction alphabet on raw, metadata and fixed-metadata VMs. Layer 3: all control-flow skeletons (jumps, local calls, wide loads, dead code) of up to 4-5 slots. Layer 4: far jumps / calls / divisions in programs of 40,000, 70,000 and 1,000,000 instructions. Layer 5: every machine-code jump distance (a seven-byte x b three-byte fillers, 5 jump shapes) and every (skipped predecessor, jump-target instruction) pair. Layer 6: every sequence of 1-3 packets on one VM object per compiled engine. "
CHECKS = {
 "C01": dict(engine="isa", category="model_checking", technique="exhaustive enumeration of (program, input) transitions of a reference eBPF machine over boundary alphabets, every one replayed on the interpreter and compared on the full observable state",
   text=ISA_TEXT + "Every model transition is executed on the real interpreter (instruction budget hook) and compared: returned value, Ok/Err class, packet and metadata bytes.",
   design_ref="DESIGN.md section 4 C01"),
 "C02": dict(engine="mem", category="model_checking", technique="exhaustive enumeration of access form x effective address (every offset within 9 bytes of both ends of every region, null, wrap-around, 2^63 away) x base+offset decomposition x region layout (incl. nested / overlapping registered ranges, a 68 KiB packet) x what precedes the access (nothing, a narrower access of the same kind at the same address, the same instruction on a safe address with the address register then rewritten / advanced / returned by a helper, r10 moved under a permissive verifier), each run on the interpreter against a containment predicate, with guard pages and canaries around every buffer",
   text="One transition (one access) per case, complete product of the alphabets. Expected: Ok iff all bytes lie inside packet, metadata buffer, stack or one registered range; on Ok the loaded value / stored bytes must be exact and nothing else may change; on Err every byte of every buffer and all canaries must be unchanged; never a panic; a fault kills the worker and is attributed to the case.",
   design_ref="DESIGN.md section 4 C02"),
 "C07": dict(engine="calls", category="model_checking", technique="exhaustive enumeration of call-graph programs (chains of depth 0..9 forward/backward, bounded self-recursion) x body variants (callee-saved registers by 64- or 32-bit writes, stack tags in every / only the outer frames, helper calls, each of the 8 packet-load opcodes before a call) x stack-usage calculators (constants incl. non-multiples of 8, pc-dependent, program-dependent; set before or after loading) x register values, each run on the reference machine (frames, callee-saved registers, r10 lowering, depth limit, stack bounds) and compared with the interpreter; JIT compared with the interpreter where defined",
   text="Each program folds what the property talks about into its result: r6-r9 and the stack tag after every return, the frame distance r10(caller) - r10(callee) computed inside the callee, r0-r5 passing through call and return, resumption at call+1. The reference machine gives the value, or Err for depth > 8 / stack below its 512 bytes. The JIT's deviation (recorded finding) is recognised by a deviation model (frame distance 0); anything else it does differently is reported.",
   design_ref="DESIGN.md section 4 C07"),
 "C08": dict(engine="calls", category="model_checking", technique="exhaustive enumeration of helper id x all 16 registered subsets x call site (top level, local-call depth 1-3, after 0-2 earlier calls) x argument tuples x dst field x other instructions around the call (ldabs/ldind, mul/div/mod, stack+atomic add, dead code) x re-binding of the id between two compilations x engine, with instrumented helpers whose 2-instruction assembly entry stub records rsp",
   text="Per executed call: the helper registered under the id (and no other) ran exactly once, received (r1..r5) in order, was entered with rsp = 8 mod 16, its return value is in r0, r6/r7/r10 are unchanged and execution resumed after the call. Unregistered ids: interpreter Err when reached, both compilers refuse at compile time, no helper runs.",
   design_ref="DESIGN.md section 4 C08"),
 "C09": dict(engine="ctx", category="model_checking", technique="exhaustive enumeration of VM kind x engine x every ordered pair of non-overlapping offsets x probe program (entry registers, fixed-buffer pointers, stack, packet loads at the first/last byte, beyond 64 KiB, and after each instruction of a 22-instruction context alphabet) x sequences of three executions with different packets (same address/different length, different address) plus a set_program round trip; each execution compared with values computed from the caller's buffer addresses",
   text="States = (VM kind, offsets, engine, probe, packet triple); each execution is a transition whose observation (r1, the two pointers in the fixed buffer, end-start, ldabs of first/last byte, both ends of the 512-byte stack) must equal the value the harness computes from the addresses of the buffers it passed. Compiled code runs in forked children.",
   design_ref="DESIGN.md section 4 C09"),
 "C10": dict(engine="api", category="model_checking", technique="explicit-state breadth-first search (stateright 0.31) to the fix-point of an abstract model of the VM API; every transition replays the state's history on a fresh real VM, applies the action and compares, then probes the reached state; self-loop edges get a depth-2 look-ahead",
   text="The abstract state is (kind, program, verifier, helper, calculator, what each compiler holds, offsets); 9 programs (incl. ones only a permissive verifier loads), 4 verifiers, 2 helpers, 3 offset pairs. next_state() is executed against the implementation for every edge of the state graph (conformance per transition, not per counter-example); the post-state probe (execute on three packets, both compiled entry points, a set_program that must fail and change nothing) checks on every edge that the state reached behaves as the model says whatever path led there. Run twice; state and transition counts must agree.",
   design_ref="DESIGN.md section 4 C10"),
 "C11": dict(engine="mem", category="model_checking", technique="same access x address x layout x what-precedes-the-access enumeration as C02 (no allowed ranges; also r10 as the stored value, and one stack slot reached through r10 and through a derived pointer), each case compiled with Cranelift and executed in a forked child; observation = wait status + shared-memory arena",
   text="In-bounds: the child returns and the value/bytes are those of the access. Out of bounds: the child must die with SIGILL (the trap) and the arena, inspected by the parent through the shared mapping, must be byte-for-byte unchanged; SIGSEGV/SIGBUS or a changed canary means the access was attempted.",
   design_ref="DESIGN.md section 4 C11"),
 "C03": dict(engine="isa", category="model_checking", technique="same enumeration as C01; each program is JIT-compiled and run in a forked child; oracle = the interpreter wherever the reference machine says the result is defined",
   text=ISA_TEXT + "Each program is JIT-compiled once per group and executed for all inputs in a forked child process; result and defined bytes must equal the interpreter's; guard pages and canaries catch stray accesses; a crash is a violation.",
   design_ref="DESIGN.md section 4 C03"),
 "C04": dict(engine="isa", category="model_checking", technique="same enumeration as C01; each program is compiled with Cranelift and run in a forked child; oracle = the interpreter wherever the reference machine says the result is defined",
   text=ISA_TEXT + "Each program is compiled with Cranelift once per group and executed for all inputs in a forked child; result and defined bytes must equal the interpreter's.",
   design_ref="DESIGN.md section 4 C04"),
 "C05": dict(engine="bytes", category="model_checking", technique="small-scope exhaustive enumeration of byte strings (all 256 opcodes x register/offset/immediate classes in every position x context alphabet, n <= 3/4 instructions); every string the real verifier accepts is interpreted under an instruction budget on three VM kinds / helper sets",
   text="States = byte strings of the bounded space (2x10^8 in the quick tier); for every accepted one the interpreter is run (budget hook) under catch_unwind on NoData/Raw/Mbuff VMs with 0, 1 and 3 helpers: it must return a value, an error or exhaust the budget - never panic. The failure modes named in the property (unreachable!, get_insn out of range, register index >= 11, arithmetic overflow) are all panics in this build (overflow-checks on).",
   design_ref="DESIGN.md section 4 C05"),
 "C06": dict(engine="bytes", category="model_checking", technique="small-scope exhaustive enumeration of byte strings against a reference predicate transcribed clause by clause from the property; both verdicts compared on every string",
   text="Every length 0..33, every (opcode, register byte) pair, and for n <= 3 (4 thorough) instructions every focus position x 256 opcodes x dst/src/offset/immediate classes x a 9-element context alphabet (exit, ja, mov, lddw half, zero slot, zero slot with fields set, call, jeq, store); plus counting/nesting families (1..40/300 repetitions of 11 constructs incl. local-call sites, call chains and bounded recursion of depth 1..12): new() and set_program() must accept exactly when mc/src/refverif.rs says well-formed, and never panic.",
   design_ref="DESIGN.md section 4 C06"),
 "C12": dict(engine="bytes", category="model_checking", technique="same byte-string space as C06 restricted to verifier-accepted strings, compiled twice by the JIT (all) and Cranelift (one opcode per translation arm) under catch_unwind; plus every program length 1..3000 of 8 instruction kinds, fix-up tables up to 2000 jumps, 65535..65537 (10^6) instructions, helper ids over the 32-bit range, compile/set_program/compile on one VM object for every ordered pair of 9 sizes, counting/nesting families; thorough: every sizing unit and the layer-4 programs at the 1,000,000-instruction limit",
   text="jit_compile / cranelift_compile must return Ok or Err - an Err is an allowed outcome, as the property says - (a panic, including the emit_bytes! bounds assert that turns a buffer overrun into a panic, is a violation); two compilations must agree on Ok/Err and, where the reference machine proves the run defined, on the result (executed in a forked child).",
   design_ref="DESIGN.md section 4 C12"),
 "C18": dict(engine="sched", category="model_checking", technique="stateless DFS over all interleavings of real threads executing real machine code: own ptrace-based controlled scheduler, hardware watch-points (debug registers) on the shared word as scheduling points, single-stepping between a thread's ready and done markers, one thread at a time",
   text="For every engine mix (3^N), N threads x K atomic adds (quick: (2,1) (2,2) (3,1); thorough adds (3,2) (4,1)), both widths, program shapes (straight line, the add as loop head / branch target / first instruction of a local function) and offset fields (0, +-2, 4, 12, 14, -32768 from a correspondingly misaligned pointer), every schedule of the accesses is executed in a fresh subject process; after each execution the word must equal init + sum of addends, every access must be a locked read-modify-write adding that thread's addend, neighbouring bytes unchanged, every execution Ok. One schedule per configuration is replayed and must give the identical trace; a deliberately non-atomic subject must yield a lost update (self-test) or the check exits 2. Sequential part: width x alignment x addend x pointer register x engine.",
   design_ref="DESIGN.md section 4 C18", note="Trusted base: the kernel's ptrace / debug-register implementation, the 60-line opcode classifier in mc/src/schedeng.rs, sequentially consistent interleaving model (no store buffers), x86-64 only."),
 "C19": dict(engine="helpers", category="exploration", technique="exhaustive enumeration of helper argument alphabets (boundary values per argument, all buffer lengths/alignments, all short strings, every k^2 and k^2+-1) against independent functions; stdout of bpf_trace_printf captured in a child process",
   text="gather_bytes, memfrob (guard pages + canaries), strcmp (all pairs of strings <= 3 bytes over sign-boundary bytes, every common-prefix length 0..1100 and around 4 KiB / 64 KiB, null pointers), sqrti (integer square root below 2^52, bit-exact integer emulation of round-to-f64/sqrt/truncate above), bpf_trace_printf (return value == bytes captured), rand (range, no panic) - each compared on every element of its argument product.",
   design_ref="DESIGN.md section 4 C19"),
 "C20": dict(engine="dual", category="exploration", technique="exhaustive evaluation of the enumerated corpora of C01/C03/C06/C13-C15 (reduced tiers) and of all API call sequences of depth <= 4 on every VM kind by two builds of rbpf (default features / no default features), answers compared case by case",
   text="rbpf-mc (std) streams every case to rbpf-mc-nostd (same transcript code linked against rbpf built with default-features = false; the JIT runs from mmap'ed caller-supplied executable memory) and compares the canonical answers: Ok(bytes)/Err for the assembler, accept/reject for the verifier, entries for the disassembler, value/Err and defined memory for interpreter and JIT, per-call results for API sequences. 3x10^6 cases in the quick tier.",
   design_ref="DESIGN.md section 4 C20"),
 "C13": dict(engine="text", category="exploration", technique="exhaustive enumeration of mnemonics x operand shapes x boundary value/spelling alphabets against an independent encoder",
   text="Every mnemonic of the syntax x every operand shape (<=3 operands, plus 4) x boundary registers/offsets/immediates x number spellings, plus every gap of the syntax x 8 blank strings (space, tab, LF, CR LF, CR, runs) per operand form, plus every ordered pair of mnemonics and reduced triples, is assembled and compared byte-for-byte (or Err-for-Err) with an independent encoder written from the property text. Complete for the stated alphabets; values between boundaries are not covered.",
   design_ref="DESIGN.md section 4 C13"),
 "C14": dict(engine="text", category="exploration", technique="exhaustive enumeration of all strings up to 5 (6) characters over a 16-character alphabet, all sequences of up to 4 (5) tokens from a literal/mnemonic/punctuation alphabet, and all one- and two-character insertions (137 characters) at every position of 5 base texts",
   text="assemble() is called under catch_unwind on every string of the bounded space; any panic or a call longer than 2 s is a violation. The token alphabet contains every numeric-literal length class around the i64/u64 limits with every sign in every operand position.",
   design_ref="DESIGN.md section 4 C14"),
 "C15": dict(engine="text", category="exploration", technique="exhaustive enumeration of supported opcodes x all 256 register nibbles x offset and immediate alphabets (thorough: all 65536 offsets, all 2^32 immediates per renderer shape) against an independent field table and an operand parser",
   text="Each disassembled entry's opc/dst/src/off/imm must equal the encoded fields (imm sign-extended, lddw halves merged), its name must be a mnemonic of the opcode, and its text is parsed with the harness's own parser of the assembler syntax and must denote the same registers, offset and immediate. One entry per instruction; never a panic. Also every immediate in -300..300 for every opcode and every control-flow skeleton (jumps, local calls, wide loads in every relative position) of up to 4 (5) slots.",
   design_ref="DESIGN.md section 4 C15"),
 "C16": dict(engine="text", category="exploration", technique="exhaustive enumeration of assembler-expressible instructions (all registers, offset/immediate alphabets, full 65536 offsets per shape) and 2-3 instruction programs through disassemble -> assemble",
   text="Clause 1 (unused fields zero, non-negative immediates): the round trip must reproduce the bytes. Clause 2 (anything else over the supported opcodes): whenever assemble accepts the printed text the result must equal the harness's canonical form (unused fields cleared). Also every immediate in -300..300 per opcode and every control-flow skeleton of up to 4 (5) slots.",
   design_ref="DESIGN.md section 4 C16"),
 "C17": dict(engine="text", category="exploration", technique="exhaustive per-field enumeration of the 8-byte slot (256 opcodes x 256 register bytes x offsets; immediates) through get_insn/to_array/to_vec at indices 0, 1, 999999, and of every instruction-builder constructor x fields against an independent encoder, rbpf's encoder and the assembler",
   text="Quick: all opcodes x all register bytes x boundary offsets, per-byte-lane immediates, all builder constructors with dst/src 0..15, every ordered pair of constructors on one BpfCode. Thorough: the full 2^32 (opcode, registers, offset) product and all 2^32 immediates. Fields are independent byte lanes, so per-field exhaustiveness covers the 2^64 slot space up to field interactions, which the boundary products also exercise.",
   design_ref="DESIGN.md section 4 C17"),
}

ENGINES = {
 "sched": ("mc/src/schedeng.rs", "kind C: stateless controlled-scheduler search over real machine code (ptrace + debug-register watch-points)"),
 "dual": ("mc/src/dualeng.rs + mc/src/transcript.rs + mc-nostd/", "kind D: transcript of the same corpus from the std and the no_std build, compared case by case"),
 "calls": ("mc/src/callseng.rs", "kind A: call-graph and helper-call program generators over the reference machine / instrumented helpers"),
 "helpers": ("mc/src/helperseng.rs", "kind D: helper argument enumerator (stdout captured in a child)"),
 "api": ("mc/src/apieng.rs", "kind B: explicit-state search of a protocol model (stateright BFS to fix-point) with per-transition replay on the real VM"),
 "ctx": ("mc/src/ctxeng.rs", "kind A: VM-kind x engine x configuration x execution-sequence explorer"),
 "mem": ("mc/src/memeng.rs", "kind A: access x address x layout explorer with guard-page arena and fork isolation"),
 "bytes": ("mc/src/byteseng.rs", "kind A: small-scope byte-string explorer with reference verifier predicate (mc/src/refverif.rs)"),
 "isa": ("mc/src/isaeng.rs", "kind A: transition-conformance of a reference machine (mc/src/refmodel.rs): bounded exhaustive enumeration of (pre-state x instruction) transitions, each replayed on interpreter / JIT / Cranelift"),
 "text": ("mc/src/text.rs", "kind D: exhaustive input-space enumeration of pure functions (assembler, disassembler, encoders, builder) against independent models in mc/src/asmref.rs and mc/src/isa.rs"),
}

checks = []
for pid in props:
    if pid not in CHECKS:
        continue
    c = CHECKS[pid]
    checks.append({
        "property_id": pid,
        "quick_cmd": f"bin/check {pid} quick",
        "thorough_cmd": f"bin/check {pid} thorough",
        "evidence_file": f"/verif/evidence/{pid}.json",
        "replay_cmd_template": "bin/check --replay {path}",
        "engine": c["engine"],
        "level_claimed": {"category": c["category"], "text": c["text"], "design_ref": c["design_ref"]},
        "level_note": c.get("note", TRUST),
        "technique": c["technique"],
    })
engines = []
for name, (path, kind) in ENGINES.items():
    engines.append({"name": name, "path": path, "serves_properties": [p for p in props if p in CHECKS and CHECKS[p]["engine"] == name], "kind_free_text": kind})
m = {
 "version": 1,
 "setup_cmd": "bin/setup",
 "hooks": {"guard": "cargo feature verif-hooks", "enable": "the harness crates in /verif/mc and /verif/mc-nostd depend on rbpf by path (/repo) with features=[\"verif-hooks\"]; bin/check runs cargo build before every check, which rebuilds /repo's working tree",
           "baseline_off_cmd": "cd /repo && cargo test --workspace --no-fail-fast --offline", "source_commits": ["4d54744"], "add_only": True},
 "engines": engines,
 "checks": checks,
 "not_applicable": [{"property_id": p, "reason": "check not built yet (implementation in progress; see DESIGN.md section 4)"} for p in props if p not in CHECKS],
 "notes": "bin/check exits 0/1 as the interface prescribes and 2 for machinery failures; known findings live in /verif/known-findings.txt; replay files in /verif/replays/<id>/.",
}
json.dump(m, open(os.path.join(ROOT, "MANIFEST.json"), "w"), indent=1)
print("checks:", len(checks), "not_applicable:", len(m["not_applicable"]))
