//! no_std-configuration twin of the transcript evaluator: reads one JSON case per line on
//! stdin, prints one result line per case on stdout.

#[path = "../../mc/src/transcript.rs"]
mod transcript;

use std::io::{BufRead, Write};

fn main() {
    std::panic::set_hook(Box::new(|_| {}));
    let stdin = std::io::stdin();
    let stdout = std::io::stdout();
    let mut out = std::io::BufWriter::new(stdout.lock());
    for line in stdin.lock().lines() {
        let line = match line {
            Ok(l) => l,
            Err(_) => break,
        };
        if line == "FLUSH" {
            out.flush().unwrap();
            continue;
        }
        let v: serde_json::Value = match serde_json::from_str(&line) {
            Ok(v) => v,
            Err(_) => {
                writeln!(out, "BADJSON").unwrap();
                continue;
            }
        };
        let r = transcript::eval(&v);
        writeln!(out, "{r}").unwrap();
    }
    out.flush().unwrap();
}
